// ref/aegis.hpp -- AEGIS-128L and AEGIS-256 reference model, written from draft-irtf-cfrg-aegis-aead
// (section 2 "AEGIS-128L", section 3 "AEGIS-256"; function names follow the draft: Init, Update, Absorb,
// Enc, Dec, DecPartial, Finalize). Tag length 16 or 32 bytes; libsodium uses 32
// (crypto_aead_aegis128l_ABYTES = crypto_aead_aegis256_ABYTES = 32, key 16/32, nonce 16/32 bytes).
// Clarity over speed; not constant time. Oracle use only. Never aborts: bad sizes give empty outputs / false.
#pragma once
#include "aes.hpp"

namespace ref {

// A 128-bit AES block with the operators the draft's pseudo-code uses (^ and &).
struct AegisBlock {
    uint8_t b[16];
};
inline AegisBlock operator^(const AegisBlock &x, const AegisBlock &y) {
    AegisBlock r;
    for (int i = 0; i < 16; i++) r.b[i] = (uint8_t)(x.b[i] ^ y.b[i]);
    return r;
}
inline AegisBlock operator&(const AegisBlock &x, const AegisBlock &y) {
    AegisBlock r;
    for (int i = 0; i < 16; i++) r.b[i] = (uint8_t)(x.b[i] & y.b[i]);
    return r;
}
inline AegisBlock aegis_load(const uint8_t *p) {
    AegisBlock r;
    memcpy(r.b, p, 16);
    return r;
}
// AESRound(in, rk): one AES encryption round, round key xored last (draft section 1.1 "Conventions").
inline AegisBlock AESRound(const AegisBlock &in, const AegisBlock &rk) {
    AegisBlock r;
    aes_round(in.b, rk.b, r.b);
    return r;
}
// Constants C0 and C1 (Fibonacci sequence modulo 256), draft section 2.1 / 3.1.
inline AegisBlock aegis_C0() {
    static const uint8_t c[16] = { 0x00, 0x01, 0x01, 0x02, 0x03, 0x05, 0x08, 0x0d, 0x15, 0x22, 0x37, 0x59, 0x90, 0xe9, 0x79, 0x62 };
    return aegis_load(c);
}
inline AegisBlock aegis_C1() {
    static const uint8_t c[16] = { 0xdb, 0x3d, 0x18, 0x55, 0x6d, 0xc2, 0x2f, 0xf1, 0x20, 0x11, 0x31, 0x42, 0x73, 0xb5, 0x28, 0xdd };
    return aegis_load(c);
}
// LE64(ad_len_bits) || LE64(msg_len_bits), used by Finalize.
inline AegisBlock aegis_lengths(size_t adlen_bytes, size_t msglen_bytes) {
    AegisBlock r;
    st64le(r.b, (uint64_t) adlen_bytes * 8);
    st64le(r.b + 8, (uint64_t) msglen_bytes * 8);
    return r;
}
// ZeroPad(data[off..], rate): copy up to `rate` bytes starting at off, pad with zeros. Returns bytes copied.
inline size_t aegis_zero_pad(const Bytes &data, size_t off, uint8_t *out, size_t rate) {
    size_t n = data.size() - off < rate ? data.size() - off : rate;
    memset(out, 0, rate);
    if (n) memcpy(out, &data[off], n);
    return n;
}

// =====================================================================================================
// AEGIS-128L: 8-block state, 256-bit rate, 128-bit key and nonce (draft section 2)
// =====================================================================================================
struct Aegis128L {
    AegisBlock S[8];

    // Update(M0, M1), section 2.2
    void Update(const AegisBlock &M0, const AegisBlock &M1) {
        AegisBlock n[8];
        n[0] = AESRound(S[7], S[0] ^ M0);
        n[1] = AESRound(S[0], S[1]);
        n[2] = AESRound(S[1], S[2]);
        n[3] = AESRound(S[2], S[3]);
        n[4] = AESRound(S[3], S[4] ^ M1);
        n[5] = AESRound(S[4], S[5]);
        n[6] = AESRound(S[5], S[6]);
        n[7] = AESRound(S[6], S[7]);
        for (int i = 0; i < 8; i++) S[i] = n[i];
    }
    // Init(key, nonce), section 2.2
    void Init(const AegisBlock &key, const AegisBlock &nonce) {
        const AegisBlock C0 = aegis_C0(), C1 = aegis_C1();
        S[0] = key ^ nonce;
        S[1] = C1;
        S[2] = C0;
        S[3] = C1;
        S[4] = key ^ nonce;
        S[5] = key ^ C0;
        S[6] = key ^ C1;
        S[7] = key ^ C0;
        for (int i = 0; i < 10; i++) Update(nonce, key);
    }
    // Absorb(ai): ai is a 256-bit block
    void Absorb(const uint8_t ai[32]) { Update(aegis_load(ai), aegis_load(ai + 16)); }
    // the two key-stream blocks z0, z1 shared by Enc, Dec and DecPartial
    void keystream(AegisBlock &z0, AegisBlock &z1) const {
        z0 = S[6] ^ S[1] ^ (S[2] & S[3]);
        z1 = S[2] ^ S[5] ^ (S[6] & S[7]);
    }
    // Enc(xi): 256-bit plaintext block -> 256-bit ciphertext block
    void Enc(const uint8_t xi[32], uint8_t ci[32]) {
        AegisBlock z0, z1;
        keystream(z0, z1);
        AegisBlock t0 = aegis_load(xi), t1 = aegis_load(xi + 16);
        AegisBlock out0 = t0 ^ z0, out1 = t1 ^ z1;
        Update(t0, t1);
        memcpy(ci, out0.b, 16);
        memcpy(ci + 16, out1.b, 16);
    }
    // Dec(ci): 256-bit ciphertext block -> 256-bit plaintext block
    void Dec(const uint8_t ci[32], uint8_t xi[32]) {
        AegisBlock z0, z1;
        keystream(z0, z1);
        AegisBlock out0 = aegis_load(ci) ^ z0, out1 = aegis_load(ci + 16) ^ z1;
        Update(out0, out1);
        memcpy(xi, out0.b, 16);
        memcpy(xi + 16, out1.b, 16);
    }
    // DecPartial(cn): 0 < len < 32 trailing ciphertext bytes -> len plaintext bytes
    void DecPartial(const uint8_t *cn, size_t len, uint8_t *xn) {
        AegisBlock z0, z1;
        keystream(z0, z1);
        uint8_t padded[32] = { 0 };  // ZeroPad(cn, 256)
        memcpy(padded, cn, len);
        AegisBlock out0 = aegis_load(padded) ^ z0, out1 = aegis_load(padded + 16) ^ z1;
        uint8_t    out[32];
        memcpy(out, out0.b, 16);
        memcpy(out + 16, out1.b, 16);
        memcpy(xn, out, len);  // xn = Truncate(out0 || out1, |cn|)
        uint8_t v[32] = { 0 };  // v0 || v1 = ZeroPad(xn, 256)
        memcpy(v, out, len);
        Update(aegis_load(v), aegis_load(v + 16));
    }
    // Finalize(ad_len_bits, msg_len_bits) -> tag of 16 or 32 bytes
    Bytes Finalize(size_t adlen, size_t msglen, size_t taglen) {
        AegisBlock t = S[2] ^ aegis_lengths(adlen, msglen);
        for (int i = 0; i < 7; i++) Update(t, t);
        Bytes tag;
        if (taglen == 16) {
            AegisBlock x = S[0] ^ S[1] ^ S[2] ^ S[3] ^ S[4] ^ S[5] ^ S[6];
            tag.assign(x.b, x.b + 16);
        } else {  // 32
            AegisBlock x = S[0] ^ S[1] ^ S[2] ^ S[3], y = S[4] ^ S[5] ^ S[6] ^ S[7];
            tag.assign(x.b, x.b + 16);
            tag.insert(tag.end(), y.b, y.b + 16);
        }
        return tag;
    }
};

// Encrypt(msg, ad, key, nonce), section 2.3. On bad sizes / taglen: ct and tag are cleared.
inline void aegis128l_encrypt(const Bytes &key16, const Bytes &nonce16, const Bytes &ad, const Bytes &msg, Bytes &ct, Bytes &tag, size_t taglen) {
    ct.clear();
    tag.clear();
    if (key16.size() != 16 || nonce16.size() != 16 || (taglen != 16 && taglen != 32)) return;
    Aegis128L st;
    st.Init(aegis_load(key16.data()), aegis_load(nonce16.data()));
    uint8_t blk[32], out[32];
    for (size_t off = 0; off < ad.size(); off += 32) {  // ad_blocks = Split(ZeroPad(ad, 256), 256)
        aegis_zero_pad(ad, off, blk, 32);
        st.Absorb(blk);
    }
    ct.resize(msg.size());
    for (size_t off = 0; off < msg.size(); off += 32) {  // msg_blocks = Split(ZeroPad(msg, 256), 256)
        size_t n = aegis_zero_pad(msg, off, blk, 32);
        st.Enc(blk, out);
        memcpy(&ct[off], out, n);  // ct = Truncate(ct, |msg|)
    }
    tag = st.Finalize(ad.size(), msg.size(), taglen);
}

// Decrypt(ct, tag, ad, key, nonce), section 2.4. Tag length inferred from tag.size() (16 or 32).
// Returns false and leaves msg empty on verification failure or bad sizes.
inline bool aegis128l_decrypt(const Bytes &key16, const Bytes &nonce16, const Bytes &ad, const Bytes &ct, const Bytes &tag, Bytes &msg) {
    msg.clear();
    if (key16.size() != 16 || nonce16.size() != 16 || (tag.size() != 16 && tag.size() != 32)) return false;
    Aegis128L st;
    st.Init(aegis_load(key16.data()), aegis_load(nonce16.data()));
    uint8_t blk[32];
    for (size_t off = 0; off < ad.size(); off += 32) {
        aegis_zero_pad(ad, off, blk, 32);
        st.Absorb(blk);
    }
    Bytes  out(ct.size());
    size_t off = 0;
    for (; off + 32 <= ct.size(); off += 32) st.Dec(&ct[off], &out[off]);  // full blocks
    if (off < ct.size()) st.DecPartial(&ct[off], ct.size() - off, &out[off]);  // cn = Tail(ct, |ct| mod 256)
    Bytes expected = st.Finalize(ad.size(), ct.size(), tag.size());
    if (expected != tag) return false;  // the draft requires the plaintext to be erased/not released
    msg = out;
    return true;
}

// =====================================================================================================
// AEGIS-256: 6-block state, 128-bit rate, 256-bit key and nonce (draft section 3)
// =====================================================================================================
struct Aegis256 {
    AegisBlock S[6];

    // Update(M), section 3.2
    void Update(const AegisBlock &M) {
        AegisBlock n[6];
        n[0] = AESRound(S[5], S[0] ^ M);
        n[1] = AESRound(S[0], S[1]);
        n[2] = AESRound(S[1], S[2]);
        n[3] = AESRound(S[2], S[3]);
        n[4] = AESRound(S[3], S[4]);
        n[5] = AESRound(S[4], S[5]);
        for (int i = 0; i < 6; i++) S[i] = n[i];
    }
    // Init(key, nonce): k0,k1 = Split(key,128); n0,n1 = Split(nonce,128)
    void Init(const uint8_t key[32], const uint8_t nonce[32]) {
        const AegisBlock C0 = aegis_C0(), C1 = aegis_C1();
        AegisBlock k0 = aegis_load(key), k1 = aegis_load(key + 16), n0 = aegis_load(nonce), n1 = aegis_load(nonce + 16);
        S[0] = k0 ^ n0;
        S[1] = k1 ^ n1;
        S[2] = C1;
        S[3] = C0;
        S[4] = k0 ^ C0;
        S[5] = k1 ^ C1;
        for (int i = 0; i < 4; i++) {
            Update(k0);
            Update(k1);
            Update(k0 ^ n0);
            Update(k1 ^ n1);
        }
    }
    void Absorb(const uint8_t ai[16]) { Update(aegis_load(ai)); }
    AegisBlock keystream() const { return S[1] ^ S[4] ^ S[5] ^ (S[2] & S[3]); }
    // Enc(xi)
    void Enc(const uint8_t xi[16], uint8_t ci[16]) {
        AegisBlock z = keystream(), x = aegis_load(xi);
        Update(x);
        AegisBlock c = x ^ z;
        memcpy(ci, c.b, 16);
    }
    // Dec(ci)
    void Dec(const uint8_t ci[16], uint8_t xi[16]) {
        AegisBlock z = keystream();
        AegisBlock x = aegis_load(ci) ^ z;
        Update(x);
        memcpy(xi, x.b, 16);
    }
    // DecPartial(cn), 0 < len < 16
    void DecPartial(const uint8_t *cn, size_t len, uint8_t *xn) {
        AegisBlock z = keystream();
        uint8_t padded[16] = { 0 };  // t = ZeroPad(cn, 128)
        memcpy(padded, cn, len);
        AegisBlock out = aegis_load(padded) ^ z;
        memcpy(xn, out.b, len);  // xn = Truncate(out, |cn|)
        uint8_t v[16] = { 0 };  // v = ZeroPad(xn, 128)
        memcpy(v, out.b, len);
        Update(aegis_load(v));
    }
    // Finalize(ad_len_bits, msg_len_bits)
    Bytes Finalize(size_t adlen, size_t msglen, size_t taglen) {
        AegisBlock t = S[3] ^ aegis_lengths(adlen, msglen);
        for (int i = 0; i < 7; i++) Update(t);
        Bytes tag;
        if (taglen == 16) {
            AegisBlock x = S[0] ^ S[1] ^ S[2] ^ S[3] ^ S[4] ^ S[5];
            tag.assign(x.b, x.b + 16);
        } else {  // 32
            AegisBlock x = S[0] ^ S[1] ^ S[2], y = S[3] ^ S[4] ^ S[5];
            tag.assign(x.b, x.b + 16);
            tag.insert(tag.end(), y.b, y.b + 16);
        }
        return tag;
    }
};

inline void aegis256_encrypt(const Bytes &key32, const Bytes &nonce32, const Bytes &ad, const Bytes &msg, Bytes &ct, Bytes &tag, size_t taglen) {
    ct.clear();
    tag.clear();
    if (key32.size() != 32 || nonce32.size() != 32 || (taglen != 16 && taglen != 32)) return;
    Aegis256 st;
    st.Init(key32.data(), nonce32.data());
    uint8_t blk[16], out[16];
    for (size_t off = 0; off < ad.size(); off += 16) {
        aegis_zero_pad(ad, off, blk, 16);
        st.Absorb(blk);
    }
    ct.resize(msg.size());
    for (size_t off = 0; off < msg.size(); off += 16) {
        size_t n = aegis_zero_pad(msg, off, blk, 16);
        st.Enc(blk, out);
        memcpy(&ct[off], out, n);
    }
    tag = st.Finalize(ad.size(), msg.size(), taglen);
}

inline bool aegis256_decrypt(const Bytes &key32, const Bytes &nonce32, const Bytes &ad, const Bytes &ct, const Bytes &tag, Bytes &msg) {
    msg.clear();
    if (key32.size() != 32 || nonce32.size() != 32 || (tag.size() != 16 && tag.size() != 32)) return false;
    Aegis256 st;
    st.Init(key32.data(), nonce32.data());
    uint8_t blk[16];
    for (size_t off = 0; off < ad.size(); off += 16) {
        aegis_zero_pad(ad, off, blk, 16);
        st.Absorb(blk);
    }
    Bytes  out(ct.size());
    size_t off = 0;
    for (; off + 16 <= ct.size(); off += 16) st.Dec(&ct[off], &out[off]);
    if (off < ct.size()) st.DecPartial(&ct[off], ct.size() - off, &out[off]);
    Bytes expected = st.Finalize(ad.size(), ct.size(), tag.size());
    if (expected != tag) return false;
    msg = out;
    return true;
}

// ---------------------------------------------------------------------------------------------------
// Self-test
// ---------------------------------------------------------------------------------------------------
struct AegisKat {  // key, nonce, message, ad, ciphertext, 32-byte tag (hex) -- layout of the libsodium test tables
    const char *key, *nonce, *msg, *ad, *ct, *tag256;
};
struct AegisDraftKat {  // draft Appendix A layout: both tag lengths
    const char *key, *nonce, *ad, *msg, *ct, *tag128, *tag256;
};

typedef void (*AegisEncFn)(const Bytes &, const Bytes &, const Bytes &, const Bytes &, Bytes &, Bytes &, size_t);
typedef bool (*AegisDecFn)(const Bytes &, const Bytes &, const Bytes &, const Bytes &, const Bytes &, Bytes &);

inline void selftest_aegis_one(T &t, const char *group, int idx, AegisEncFn enc, AegisDecFn dec, const char *key_h, const char *nonce_h,
                               const char *ad_h, const char *msg_h, const char *ct_h, const char *tag128_h, const char *tag256_h) {
    char  what[112];
    Bytes key = from_hex(key_h), nonce = from_hex(nonce_h), ad = from_hex(ad_h), msg = from_hex(msg_h), want_ct = from_hex(ct_h);
    for (int pass = 0; pass < 2; pass++) {
        const char *tag_h = pass == 0 ? tag128_h : tag256_h;
        size_t      taglen = pass == 0 ? 16 : 32;
        if (!tag_h) continue;
        Bytes ct, tag, out;
        enc(key, nonce, ad, msg, ct, tag, taglen);
        snprintf(what, sizeof what, "%s[%d] ct (mlen=%zu adlen=%zu taglen=%zu)", group, idx, msg.size(), ad.size(), taglen);
        t.eq(what, ct, want_ct);
        snprintf(what, sizeof what, "%s[%d] tag (mlen=%zu adlen=%zu taglen=%zu)", group, idx, msg.size(), ad.size(), taglen);
        t.eqh(what, tag, tag_h);
        snprintf(what, sizeof what, "%s[%d] decrypt taglen=%zu", group, idx, taglen);
        t.ok(what, dec(key, nonce, ad, want_ct, from_hex(tag_h), out) && out == msg);
        Bytes bad = from_hex(tag_h);
        bad[(size_t) idx % bad.size()] ^= (uint8_t)(1u << (idx % 8));
        snprintf(what, sizeof what, "%s[%d] reject bad tag taglen=%zu", group, idx, taglen);
        t.ok(what, !dec(key, nonce, ad, want_ct, bad, out) && out.empty());
        if (!want_ct.empty()) {
            Bytes c2 = want_ct;
            c2[(size_t)(idx * 7) % c2.size()] ^= 0x01;
            snprintf(what, sizeof what, "%s[%d] reject bad ct taglen=%zu", group, idx, taglen);
            t.ok(what, !dec(key, nonce, ad, c2, from_hex(tag_h), out) && out.empty());
        }
        if (!ad.empty()) {
            Bytes a2 = ad;
            a2[(size_t)(idx * 5) % a2.size()] ^= 0x80;
            snprintf(what, sizeof what, "%s[%d] reject bad ad taglen=%zu", group, idx, taglen);
            t.ok(what, !dec(key, nonce, a2, want_ct, from_hex(tag_h), out) && out.empty());
        }
    }
}

inline int selftest_aegis() {
    T t("aegis");

    // --- draft-irtf-cfrg-aegis-aead Appendix A.2 "AEGIS-128L Test Vectors", test vectors 1-5 (key, nonce, ad, msg,
    //     ct, tag128, tag256). Provenance: the draft is not available on disk, so these were typed in from the
    //     published appendix rather than copied from a file. All 35 hex strings are reproduced exactly by this model,
    //     and the model is independently pinned by the on-disk libsodium test tables further down, so a
    //     transcription error in either direction would have shown up as a mismatch. These are the only vectors
    //     here that cover the 16-byte tag and the empty message.
    static const AegisDraftKat d128[] = {
        { "10010000000000000000000000000000", "10000200000000000000000000000000", "", "00000000000000000000000000000000",
          "c1c0e58bd913006feba00f4b3cc3594e", "abe0ece80c24868a226a35d16bdae37a",
          "25835bfbb21632176cf03840687cb968cace4617af1bd0f7d064c639a5c79ee4" },
        { "10010000000000000000000000000000", "10000200000000000000000000000000", "", "", "", "c2b879a67def9d74e6c14f708bbcc9b4",
          "1360dc9db8ae42455f6e5b6a9d488ea4f2184c4e12120249335c4ee84bafe25d" },
        { "10010000000000000000000000000000", "10000200000000000000000000000000", "0001020304050607",
          "000102030405060708090a0b0c0d0e0f101112131415161718191a1b1c1d1e1f",
          "79d94593d8c2119d7e8fd9b8fc77845c5c077a05b2528b6ac54b563aed8efe84", "cc6f3372f6aa1bb82388d695c3962d9a",
          "022cb796fe7e0ae1197525ff67e309484cfbab6528ddef89f17d74ef8ecd82b3" },
        { "10010000000000000000000000000000", "10000200000000000000000000000000", "0001020304050607", "000102030405060708090a0b0c0d",
          "79d94593d8c2119d7e8fd9b8fc77", "5c04b3dba849b2701effbe32c7f0fab7",
          "86f1b80bfb463aba711d15405d094baf4a55a15dbfec81a76f35ed0b9c8b04ac" },
        { "10010000000000000000000000000000", "10000200000000000000000000000000",
          "000102030405060708090a0b0c0d0e0f101112131415161718191a1b1c1d1e1f20212223242526272829",
          "101112131415161718191a1b1c1d1e1f202122232425262728292a2b2c2d2e2f3031323334353637",
          "b31052ad1cca4e291abcf2df3502e6bdb1bfd6db36798be3607b1f94d34478aa7ede7f7a990fec10", "7542a745733014f9474417b337399507",
          "b91e2947a33da8bee89b6794e647baf0fc835ff574aca3fc27c33be0db2aff98" },
    };
    for (size_t i = 0; i < sizeof d128 / sizeof d128[0]; i++)
        selftest_aegis_one(t, "draft-A.2-aegis128l", (int) i + 1, aegis128l_encrypt, aegis128l_decrypt, d128[i].key, d128[i].nonce, d128[i].ad,
                           d128[i].msg, d128[i].ct, d128[i].tag128, d128[i].tag256);

    // --- draft Appendix A.3 "AEGIS-256 Test Vectors", test vectors 1-5 (same provenance note as above).
    static const AegisDraftKat d256[] = {
        { "1001000000000000000000000000000000000000000000000000000000000000",
          "1000020000000000000000000000000000000000000000000000000000000000", "", "00000000000000000000000000000000",
          "754fc3d8c973246dcc6d741412a4b236", "3fe91994768b332ed7f570a19ec5896e",
          "1181a1d18091082bf0266f66297d167d2e68b845f61a3b0527d31fc7b7b89f13" },
        { "1001000000000000000000000000000000000000000000000000000000000000",
          "1000020000000000000000000000000000000000000000000000000000000000", "", "", "", "e3def978a0f054afd1e761d7553afba3",
          "6a348c930adbd654896e1666aad67de989ea75ebaa2b82fb588977b1ffec864a" },
        { "1001000000000000000000000000000000000000000000000000000000000000",
          "1000020000000000000000000000000000000000000000000000000000000000", "0001020304050607",
          "000102030405060708090a0b0c0d0e0f101112131415161718191a1b1c1d1e1f",
          "f373079ed84b2709faee373584585d60accd191db310ef5d8b11833df9dec711", "8d86f91ee606e9ff26a01b64ccbdd91d",
          "b7d28d0c3c0ebd409fd22b44160503073a547412da0854bfb9723020dab8da1a" },
        { "1001000000000000000000000000000000000000000000000000000000000000",
          "1000020000000000000000000000000000000000000000000000000000000000", "0001020304050607", "000102030405060708090a0b0c0d",
          "f373079ed84b2709faee37358458", "c60b9c2d33ceb058f96e6dd03c215652",
          "8c1cc703c81281bee3f6d9966e14948b4a175b2efbdc31e61a98b4465235c2d9" },
        { "1001000000000000000000000000000000000000000000000000000000000000",
          "1000020000000000000000000000000000000000000000000000000000000000",
          "000102030405060708090a0b0c0d0e0f101112131415161718191a1b1c1d1e1f20212223242526272829",
          "101112131415161718191a1b1c1d1e1f202122232425262728292a2b2c2d2e2f3031323334353637",
          "57754a7d09963e7c787583a2e7b859bb24fa1e04d49fd550b2511a358e3bca252a9b1b8b30cc4a67", "ab8a7d53fd0e98d727accca94925e128",
          "a3aca270c006094d71c20e6910b5161c0826df233d08919a566ec2c05990f734" },
    };
    for (size_t i = 0; i < sizeof d256 / sizeof d256[0]; i++)
        selftest_aegis_one(t, "draft-A.3-aegis256", (int) i + 1, aegis256_encrypt, aegis256_decrypt, d256[i].key, d256[i].nonce, d256[i].ad,
                           d256[i].msg, d256[i].ct, d256[i].tag128, d256[i].tag256);

    // --- Vectors harvested from /repo/test/default/aead_aegis128l.c (32-byte tags); "#n" = index in its tests[] table.
    static const AegisKat r128[] = {
        // #0: mlen=124 adlen=27
        { "54662e55bb4771f9711fe5301d7412fe", "e51d417ab10a2931d8d22a9fffb98e3a",
          "04f672f8cdb3e71d032d52c064bc33ecf8aad3d40c41d5806cc306766c057c50b500af5c550d076d34cc3a74a2b4bed1"
          "95ffa3e8eddf953aefe9aed2bc14349c700ab7e4cb974fb31615a9ff70fb44307055523ab378b133fefc883013ce23bb"
          "01b23aeda15f85e65cdf02a291a0454900cb261872d5205737fd7410",
          "3b762e3ab5d06cb2896b852ea70303f289f2775401b7808e30272f",
          "d6736371f35eb067244dd7963ad2e0cd3949452cbd4c220be55082498ed3b230f579d78844311652a9958e82f172bb80"
          "72c4b1114ec531a6ccb340ddd86caf32a0d4c9c45738e9ec9c0d9154612f7d90465f3a277bebd667c0af0edb6935d8df"
          "fbdee96c1a96e4c4318f5d3bc90c1c8d5729e1a402f765bdc9b26b08",
          "ee9595bb3f1b32000578ffb751b508655b3cae8fecaf44f40d740fa0347e283a" },
        // #3: mlen=49 adlen=60
        { "7db9c2721a03931c880f9e714bbf2211", "27f642398299ada7fdda1895ee4589f0",
          "dc5180954df0c3391a60b44cbf70aee72b7dbb2addc90a0bf2ceac6113287eb501fe1ea9f4c51822664b82fe0279b039"
          "f4",
          "6dd5e43033fa6f021059a353edaf1f870387693054d0a2360fd1f6941a68f48ba972a1bc0816a446a6186e4a9a2f9df5"
          "56bf709470137b8e60d9daa2",
          "c8a7d9131cebfa5388003cc30deac523aa9b09d148affff06ba40400e09ca900db770e07cedf5cd0647f6723c810ffcb"
          "59",
          "2c17a7022f6500450e86c8afdd60d3da535c2322fdf84f3dc67429e6ad92673f" },
        // #8: mlen=67 adlen=103
        { "6870a5652199e2f17407185bd7cf18eb", "942988922482351c317244b26587c560",
          "49b2f6765f7f552f8704671271d703b3b02157f71ed84e64481be8bbd4f3493bfd3f313ac62ba4e9a7d86288533a7bc7"
          "a4257cad5db04bb80d6574e473519eccd15cd2",
          "6cc34a81ee984b436947b31574473e0a849a341db0ebc67f64efb39c9e118f65cfb25d1d898b4ee8052f700cb43cbe74"
          "4d70b71d2086a89ad12dd67feceacb092a861ba80e41808c625fbdce017d51916e1fb5b38b0beebb27478d8390ec79b3"
          "f3902a4ac22d79",
          "82d3ae3aea3870e40fa48da698adcb596eb43fb063866f6231bb744b687e32e72117a03da08a635e4ed0f255f28f3db6"
          "f0b8a7238d0244994a507fe75ddd17138b0605",
          "a3feae07a737428751dc2c92301bc012b0d5c9c41a7543d248d6213a90343565" },
        // #9: mlen=121 adlen=34
        { "15a87aee858f5723beb477b2cc039d14", "6ce71c763784e59fba852ae39b25de3a",
          "25d1d38a8e9e8c34564abbfcba69035ce2f78df8626543e7639f2f23d742853e34880e7bc6d684ed3075abdfb91e3607"
          "6242dc53d60513333f59d139e680aa246b0e7e6092e8d4e6ab471459068c2a83b07e8b7969c911e3bff7558caf02b3f3"
          "e6de7ae9122d533558868d993b8242b2328834a88cd656a941",
          "26fde5885fd22bdcba8b5c1b5f66d09c7da7bfef2790e6dd2a98a351056044495fe4",
          "2e241f3f96e8bde7d2b5cfad94461d6c7282405c77918a2a8731711175211814e20e72ce01139643f58a2336c05cc274"
          "58f042ff063bc73fbee2ca8c099ff1f3fbe8517fce6cd3d54567220218cc67b4ef52767f75fe514e8ec49013d9fa7876"
          "85a5a81efe550248f342eaade9cd61fb5037634f2bf621c944",
          "694a5b5ae2081becf4d38b2958d3557438b9f04dbefbe649baa91924e17e4d88" },
        // #10: mlen=15 adlen=98
        { "23e2250df6b870b6eebbce928cd1a80f", "279f73beda18846d7170c29414590029",
          "9cdd4e34495b4a03ca2c5bef9074c1",
          "f306eb122b1907b4b6bccc77984ea7be4a28f9ca3615135d4c84ad74d7469efefbbff997bb495806a3d9ab274b4228cb"
          "894fceeb24c4905e121efbd3ce8be668dfee4f9e38584ba6c3374337d3c884cdaddcd96f63df225ddc879e0ba4bce012"
          "5dd0",
          "8821c6d2c36ae97bef1b9d78c1afba",
          "155b5b0c92176ed1a2248bc86b04570620e97a2a601a3d730d53236f43696c28" },
        // #11: mlen=32 adlen=44
        { "82f02cd289d07f40acf9a1d2b1cf7f06", "09162f09c3893bd2c5e4f2c8f6ec9930",
          "29f1d0e8aef96c9936eb5bcb32b0f751b25a7a46d4cc5a33d5f96dcaea757b2b",
          "4ccb0ba7f1b2eecbe3dc3ba47f797201ca656ab04e5b38df9b95ef24ba02a5ef04a9a8122f954048581d275e",
          "6b8f329fa3e905b7c0df490f18a13ab3b6be6701cba59a1ee7c12d054c500e58",
          "8c97a1010a25a9e9047d4dded0235450f488d3c18b460316e5ef5517edc82e3b" },
        // #12: mlen=86 adlen=30
        { "a28c7a79d3d7d7b372c5cb4eb66201ba", "3c27d1ca6e8fd19cbf2dbd81c87d2ac0",
          "0ff33640432edcf34a2df2527ca13a0340d5adcae1d10589edbc89701f5093efeaf6d7d3f97a778052a76a6efe7b3702"
          "1a4fbc8205f26f17dbd0c68b60c6403c4160985255aeac23c3bc88b1d8c11fd4197ba366962c",
          "96bec6c8014708e9142a8ea0fd496f89f5a2414f4296ae0a185b13f362f2",
          "f20be34587afaa4300683655ea16a292bfc7f2779cb771e520c6b0952e41a2b89e45f6c4b571779d573f1383b5e311f7"
          "1ca89379b8a3eb9d9cde72b16e0f782058e9bb4df4731cbd7c67af1c459061ccff149da3bcdc",
          "d9dd91cdfc19da4a95fca7229f296a74aafc0d78b2b398e7dc089cfc6309d281" },
        // #13: mlen=95 adlen=82
        { "24d66092958836e491cf974f34ee7ca9", "1c04e8166ef37a2a5d34b4462a7ca8bd",
          "01a77fb558d8d94c16eccc82b49f53823597272de8e6df070fefd202042665ef5788bab86c70dc3e571e3b372654494e"
          "552ef00462bf0f7fdeca8efbaa51f3da63e6f18fd13a4668b7fb1a89464a09a17d9ce709b0b8f079d6bf93ed4871c0",
          "3c082dae68ee1cd6b8d1ef79593132e68e373eec746d13583f28d42730bfa18ed77ee83ad6c3db24bcda6d5e2925970d"
          "c01d1968b744cf3753e597ef831dcab728ce66ef3da0ab872cb0dedf77922a57abfb",
          "47ec41abfe34c4ece7ff8f3ba179238f38f3e527d97d7f3f6ada79a9609e715cd0acec31f0a0df25c7ac0bb894fe791c"
          "c467a098710e92af75a14e68d9241c160d4587f7da279deaa9cc9d9c5a6e97b231021ab2ba9c63473cf269ef294d1b",
          "807d350484ead90c1470efc0c6e334999b204444034151c3b80961faa4b821d3" },
        // #16: mlen=3 adlen=122
        { "639668e0b0fbb192b83f870048d29c1c", "48ed7de6da13ba38a1e748eb9ea57529",
          "1ceca7",
          "604b7b904ba56e1f2d17556236150e5bd19ba125f92e9adef0f75b38356fc9a1851ba34105805cae7e99dc7bdcf8744c"
          "44f06e709c345cadcffde348d2d55c5c36cf5ee1f288509e7a878dc00daa3d9593afafd7a0d94fa78960b3ca9fdb2b7d"
          "5746d1f4702080fadaf0cd6785373a16ceed056641aa4afe725e",
          "0f5286",
          "b6b24c01ae14d452da68d75693fe772340ee1310d329281370c6c54231372be2" },
        // #17: mlen=13 adlen=23
        { "94b94725497880ff10d89572b62d1029", "bbdb56d8112d298fd5686b93787e0011",
          "f062bbe085b5f49ae4064f9ffd",
          "de189cbb1821775cb97888f25d4781ddb82d4664634f41",
          "d317f2a31eaa3f23e84fc3eaa9",
          "5098967201169e8ab8242b8e09322165127ef2155795f62fc1e55e6a72363fac" },
        // #18: mlen=16 adlen=32
        { "8e6f1217eaf84aee8e5897f5860f184c", "a4e099068ad0b67f28b6902a40921dca",
          "53c939f8d167e49980f8fd3ccc4a2ae3",
          "4bb7fccecf15f0b32be37860507fc53812713194e2844855894ef916abbf9b5d",
          "92e47292a4f02cc22d3392d1b6a089ce",
          "a3eb3e03808499409b00f0bb635c6fbf12062469edb45f5bb252c08748e131ed" },
        // #19: mlen=4 adlen=96
        { "6968acc00e83184e6024167672c5df8a", "2d5b193c93e8aa5302fb5bb20cd59504",
          "bd6b6830",
          "7f4e725f4b0f84454e823b8193f1d8b39d78a8b12f1a2250beb0def895dd0aef8960652c071a82d9ad89910d97287e72"
          "848fba1623f441d4955a019f5c1a955b054db858722b1f15210c3a752fdbd2bd631620cc56c2c30d78ccb16272eeeea1",
          "c01c9b02",
          "9910104c7d6d91e99c167d027c4190701a21c2fcadc9874b1744cfda7b75b8c6" },
        // #21: mlen=104 adlen=104
        { "6dbf15415dae57093e6774f4a1b7e4d8", "bba38b490d740d7b3df0c9283d4a530c",
          "fafe1562e69a0f5149e0ee65d14b42098a8a53a58d2cf07fd86f6c64cc4e67d9b5cf3655b5ed7f722d2073a3e9cc8372"
          "efd9620a32d6443a328436dd5ae394700ddc171bef8cb0674b1fab87b3e93aa426aee92c7ff733c33f9e4e49f614043a"
          "7fb42cf657e4e3c2",
          "c742a929d2a766dde0fb0ce2d0faf790bd6c5feb63cb3126402aac7ef7c9ddfd408cd22bc6928a9b67426e20c3d9b340"
          "cd7231f87ffbc29a8e6c23602b9dc434f5ab06bb8c049803b45cf088b919e8584091ecfca7259e0d130ddf4ca45d4429"
          "1024446f58f1271f",
          "d8dda53eeb8b375930698379836e64014c22bd885b5b5cafb4dc65ed00aa947acb2792c46dfed8ecd155b21cfc98ff16"
          "3b403e3a9961805436678fd34942354094bc47663165341ed0b949c0ecb4da5499c1c8c87eab99ddfd0fc2d80a9a5204"
          "61e3dc402c3d4b4f",
          "f8e4c1f827d4c5dbe00e7794effc567089b8128a5b11e3c6c2e5e36414b4618a" },
        // #24: mlen=120 adlen=0
        { "711a437629429db2e14058e2a826dcbf", "eb036d6e483a212ff6ee25d970fe1ac3",
          "29937c0efb36ed27fe7709d7179b4f38a2fc191b5e8d9616b58f6dc9ba2ab74e13bbdcd233e8726d90f7ded06c386158"
          "2f27158732f997df9091446befe75855ab05b348d68f96e45445f44c31e9ba3e4d7be96d9c8e806535e79079139c71fc"
          "c599fea8701e0c2edf606986eff1535afdfa51d1be2dfdee",
          "",
          "4a61f5d6b8e746bf6fb49ca2b16c22f4e9ffcdc89a3137b39bf5445fb6b989d5200f0c8d5538891a5e8979b5cd8c7341"
          "28b4e4ad98b0cd598c40ec9be74725dbca84c65a52f17ac983330b0b74e4193540f6357c3bcde4e8d8fc6942314ba681"
          "15bf2a682756e3c42008803a81532708a0e7b5e3b8436145",
          "4af113e2b6165247c2760ab445c6985306c81fb9ccebb8df0e57b0b044c52736" },
        // #29: mlen=19 adlen=84
        { "a4b06bbf87393d2b921dcba697274f07", "5c14d51c52d95ac040e1060a0ffa21eb",
          "8c85ddd8d3f446608e656052062f0cd58e6d58",
          "847d3b95895426225d08865cc9a329f6f14e63bc5a66fb6f2a05bf8eb9bc8166e6fef29e1d573acdb4c3bc699daeadff"
          "7df5d6e8dbe2ef713008afcf9b6e97ce6cab4d90594fa4430ecba5bb62a7938f03d57869",
          "cf6c47fec422ee29226b6cbc5092bf670b5434",
          "0d57758c68a9524557fd6f6742d24a00467846456a5bbb1271e2a5e8c3ccbea3" },
        // #32: mlen=80 adlen=87
        { "519fee7049473c7c41f3bcf7b2f63a69", "be227d2bb97f2eef62d5fd9203cb63a9",
          "0c121fbcfb4f4f8f150281140e49d71dc5ed82ac4a30263a6b2d92c55ac6fe4f43f64c0f526d3df642c04a5c51e58703"
          "c381701b1f4618cf66e27c60dd5e6558b48028d5fb11339c4f2547a3aefd8100",
          "9ebb3c33eda54164b54bf95d4fbe113333edb0fdd62c24532fbd4cb91b11e08b1e74487dbb0f3daaa08c566e759d53ea"
          "3974cc3685ec460e608f7d01fd2dc23d9bc283c73ab492bc9fa2ff458d268667504cd47e585826",
          "c0e22cc3aa610bda350a2ebe8f530c05cafa19e7060b064c276a06f0bb430b79839c51e6b22aabf429616480382c86f8"
          "c04ea397c976bb08caf8f35c38208e476787ce229a7a300c5411471548b15d9a",
          "7891d41aa7d6f935761dc0454a7919d511f629fdc3f38f4932eb0148d870a24f" },
        // #33: mlen=100 adlen=38
        { "58bd2c73aedb31baca592e42d614c68a", "bbf76585731b6334fd314e771d9e404f",
          "d238c5f0677c86c001e66691ea9eb8aee429fc490d38abccfed3a546b5f05398288e7232880fa3d485fe3862c5469f98"
          "0d9ff4caced1cbbe7f97adc15b6919876b8cbdd35320a20eda8a1ad6e853164b0e0ffb2f702e1d6a0eae8b27577bdd4e"
          "5a17e6d8",
          "86147d2debc30111b82c1ccc41a13dab1aff144bf2810695a40d02bdeaf519669a1b81864edf",
          "94fccab0dce48d5aaf42ef59764cba95b42410e2d6b2c87c95d8dbc15421c45d7a556e25296df9167cd46def7d10602a"
          "eebd0e7e909c52ab7a22f833e976fb76b9b39b1c2889587582d44ad8f484f0382804d7481f1a8d6c903b13190c213102"
          "ae273378",
          "67a012ae5452dc293645179c0fbe23d2f79ecf435e4fa09208ddf8bbd8bf8b37" },
        // #35: mlen=27 adlen=116
        { "d55658dd1f27af02885d0f431fb2ebb2", "0aba0b9dfc9831aef0203bc61a601176",
          "05805491b667d9ff38147d96493db29441e188243f72668c7ba61b",
          "df403489e3bb67eeae8440569f6fbc1ae072305f5047c5105a7e4e5349d3732d75572298253f60e3821c721941c02dd7"
          "61edfb081d09b3c7528a0e786a6fcbab709727e7d614ecc604def19c78fe061040bd636d842b16e96158db07d6c2521a"
          "d54778acc78f12b450db0474ef700dfd547f9c5b",
          "2e8adbea0e9ef5068fc3abb39ccef59616420d4fa038e2f35b560c",
          "d1f27edf1046f8ad30e9900c43a317744dadc934e6ceeb63184e0663ba80df77" },
        // #37: mlen=36 adlen=39
        { "4a5d7c201ddae018edc9783413dd0329", "eb7e038948d3bf61d2cd29d2fe722603",
          "3e6a17d47db58690b895619128645a2782d17e9a3735c1450a7c8e13a9f212208fcf256f",
          "65b8cebd83d3197118fe81dddce22b3947653e04a48d05b4a2dbc42a89e62b0d6b61d5f31487af",
          "a1a858d13540281e1d0a9a82e3caef64ff742e51b1f7476d318729508a68840b371fd300",
          "62b25795c2cfc4d7f8c1058256ed2d0e73374f8e33a106319a67778387150217" },
        // #40: mlen=71 adlen=84
        { "53e1b8de6176c05e04f5a4787e733b3e", "574de8c0f914115c9267f7852280fbe8",
          "0ef099d6995b41d4e9227c3aa59da313160afaa32e1753422c1eb45bf102e806aa996a54606c78320e85da74deb39e8b"
          "0059bffe32780ec784abf6bd540d3c01e9f13c4209bec2",
          "3d9ca3718f31b4f37f988ec676fc3b5492a44792d1a4f8fd7cc4726fae899f102841e7f5c04b2ae2c5f9eb204c5b7422"
          "2d89c2bd36b1500b2dd81e9643142becec1b88aa7a0d7ea4c81fb7e8fb37ec1a58e0383e",
          "5cf9292077dbcc9557a1cef51de815facf02a89c9e29ac62098c8e4d0cb49c4f55ed55dd9dc9c36a634ceb8f4dd47583"
          "7582b9be1c17030c0546b335be95fded1c416e4599851e",
          "782baaaec2b50b6bcb07d00c6eacb7fa8ac084113bad5a1d6dbe8c80340443e8" },
        // #42: mlen=42 adlen=30
        { "2d60824c89bbeb4e2b72434aa0356587", "20ad2c51679a7246ca6d0a47ba7292e8",
          "17aa9ed83ff674f959085ecde2a6c5026325265a143d2c772337056a3c66abb5d742f33be39697194fb1",
          "283fa29dc399d07116e43c85eec0adc8a76221669a9bba6554f8e828b680",
          "40fddfe3b15925fe189b25aeb6616538958d43f0c64806f6286a5efc8a4faee98d02314eace7619bd2a3",
          "4d9f99a5248b8c7ed7ecac6397969bb92799a3e206239bcfbca54ca2b2325f9a" },
        // #43: mlen=4 adlen=7
        { "e2e2a29db958c6a3f68a52825b844c2a", "3210fe0cede911318435fefee1d921d9",
          "45f5fc3a",
          "91209d1202574e",
          "2067b789",
          "8869621138c4b08670fd8b6ede57933e4036e9c2a635e367f12a4dd7b19e1d73" },
        // #44: mlen=24 adlen=48
        { "24affb4e364dfcb9be823bda04cdf045", "d7db8f0fd20b87ea4ad5e85e026b4b42",
          "296e2b8040a3907fbd8789f660f85f3b49c6050092029a2b",
          "42f31798f0016547fc9126a6919c14fdee91bc68f839dabb24d2249ff5e001b6a2308b57bfa6baa84e635123e8c2110c",
          "3af391d72e60751b10d3f009814673d64cb86a0dc998cbf5",
          "388f9d6b3b3765f7361cf130f3418f1d81f3c4220b37046d82ba47ba252424d6" },
        // #48: mlen=10 adlen=116
        { "5dc5206e6145ce81ffbce717cb425955", "a7a6fda319439a67cb679b3cc6076dd7",
          "4244fc95829a69089920",
          "92f48b403ce97f87118605d24314981ec34b958ca0036f0b6acef5e20bfddee370e13bb2cc676dd8d4547668aacc7dfd"
          "e6af12727789f6ef811e63b391cfa9c4a68ca89e6bd978f38f9228dd9c24e968c4e59e3d34963d6ee942f788e0b5625a"
          "d95bd3eb6ae67ffcaf2e4ee9a9cbbd15c40385ae",
          "adc2915b7813f367bd80",
          "30cff01d2431cc61bacb6445d7e3e604de19ea532a2db3adcc1a978d9cdf3dcf" },
        // #52: mlen=110 adlen=21
        { "81d8c7bf41cb0e54fa51899660637877", "044d29eb40264aa36b976a766108ac88",
          "4712680db09039894cd72e86db111d63c4bcb62058f84f83ef419cc21e36f2169ca340375ff69f9280fa60c99d86a03d"
          "ec4673901a7029784be2cdae3f63590da312a448d24eef063304545e553fd01ce6ee088e43c8b02c51b155bada983ea1"
          "aca4bad804406aad3c92ac75ce4c",
          "897f0ea8d69b962913a9a59ca36b65aa7aefe39d3a",
          "1d5cff8679946302451dc9aed1c601ce46a6f31ef17a53af6ab130605cc2a41da08c932a13b72983ba8cc58376040cc1"
          "7e3182993dd593f4fc8f2965825173656325942e97db98c584ff0bc913633888a0812ea7675d130d690f9fe8d6eb7f16"
          "55de1938fa0163b02c50c8a122df",
          "96887b58e80e7c7716cfc5ef37c2b5a6bffb401733b82a0bd31510613f033a05" },
        // #55: mlen=115 adlen=35
        { "2d5464646342ceb3039a9d2fa406b90a", "8f045fec196343f938902e1bf706e34b",
          "260ab30c42d3356dc39837b28f6f387accc2527aa853dd58f54426d52cdb9ffc0a5ca5a5c00761a7299e72d48874b46f"
          "fe18dfaf38f19cfad76d7c9cb4a4cd7784cfb125a58673972b4bb8c894da2a8969f68cb27fab746f8d62fef606649008"
          "33dfca7e0be03eb5908f12e74bacda9d35b06e",
          "d4aa5263a31fcc8ccc9e1127f7ba6ea2d3ccc72cd7e98e442890ad3f8763856d90e362",
          "51ede001d1e4ca8a3de43186651a011cd14f4bf93e9375e910a8974ea411343b68e8f6ce80cfc945ae7d9c5adf76e1c0"
          "f93de8f5dc48f36b82b65886776f1298b36a2f012140da048da77e09e4d57426abe2b894c425aeb2050b0eea2d8f8255"
          "b733bb814abf3ef3d530d87dd7e1504bd683f4",
          "890d5d33a9dfa3807e5e20e4824d13fdce5f7ccaeee1f3448a4b21a085277370" },
        // #56: mlen=30 adlen=64
        { "723efa25ce1bf1748d86d9da611be9b1", "aff260690905ed2e8618c20963e4b7c9",
          "f7e3eb593d3966c015d63ea0e9211beceb8fa6d9a202bb4fd4128c3177c5",
          "3950b62147fc16429392d41cc4188d5c82537204e93edc7abfe7ce3404f9aa1474ebc4acd8e18aa652a87ee99c2415f9"
          "214963becd44720684f67aa814903cde",
          "9d7ee643a2cec28c467d2cc88aa539341dfbc82f72b5d940feecd11d4a7d",
          "eadd8931af484ec1f3c3e18f7acc0dacec73dd80836e03957b595b2022c8ac21" },
        // #60: mlen=57 adlen=18
        { "3a00ee1e8877248065cd26e3b9a857de", "950529b19697df5b0ce43a3f429e9509",
          "d6fdd1746e8e7c7b84adef010951f60fd19b5aa74b1a8ab1ef2dbd5487318fdf7844b436dd1063f10e609bc58604ada5"
          "c41ae2ea1b5303f84c",
          "30a5f3a4e4543dca2b4d53a59a6a11b97a7d",
          "06ffcb4a0da10ae1a5a1c5b6205ccf4882a9c796370e7793d9b3ff3a857c156b3285e3dcc2181d8c0df26167ab4f8709"
          "db6870c9e10e75b90f",
          "6127c870f1aad279a83c79ce8226147782f709fe81f8c8740eb47bea34c2a558" },
    };
    for (size_t i = 0; i < sizeof r128 / sizeof r128[0]; i++)
        selftest_aegis_one(t, "repo-aead_aegis128l.c", (int) i, aegis128l_encrypt, aegis128l_decrypt, r128[i].key, r128[i].nonce, r128[i].ad,
                           r128[i].msg, r128[i].ct, nullptr, r128[i].tag256);

    // --- Vectors harvested from /repo/test/default/aead_aegis256.c (32-byte tags); "#n" = index in its tests[] table.
    static const AegisKat r256[] = {
        // #1: mlen=121 adlen=16
        { "c88bb05b2aec1218e1a5026511e6d44de7bd502588e9e2a01591b39c5ead76ff", "4a485f226a73f0c4e16242e8234841cdf6af1771eb278e7f35428d03eb5b4cf0",
          "2a4c06941ec356390542d7d7833fd68fc85a00c0452281f87dee6f10180d02182791232c7007fde35dfd5a901afa8962"
          "96f9f344db717994d078fbd3a4cec8d782d2bdc205f3709827b776fd5c863a952fea97a14a6c2ee3f20432b8baa08447"
          "0179078bd6a83597478b2fd9ae00ecb424822cb0d61e9a55a4",
          "38a9809dbdd2579010d38bf5314f255b",
          "b8565db06c2fa493e09b6764f4d09296422095eb6e9890f606654713bfee6f362a123688b61f254f315f18b20bcc5ed8"
          "b0b4f2224de9f498e3ef03532a8bcddb361f5ace8ff491bab8b3d06550496501264f9f48ebad277e7492146789d0fc1a"
          "3b1e3e81598370a4183683d1fee25a9a1fe359c836932746b9",
          "5d5d35e0299dea47956a2e2143cdace4de8d228784d6717ae5a6bf5ea6b3ed04" },
        // #7: mlen=121 adlen=39
        { "873edbe818233d0f51bcfc1d5340cc4712c909de36f963e6157f128b8a71e3a8", "16e7637700a6fc10539c056663d12ec85bd529f1e6adb131a3853578f5d27c12",
          "db38cdcecbd99003978832d29cf6a34acb4d0e6293e37d2795fcded538ba37d6a11ed41430dc9f4c0cfd27587d607846"
          "f42aa30682bcc295097053821b80b5869b4a0b852ba7ac1d7b784ea0e76b2d033678011889a5adbf7e091cdbb9754f82"
          "8b7519f1179e2426ca6bf80a509e34729c854a5052e61adf8d",
          "0b0bd264fb5030f84da620f07099f42dfbad57c314102a1f7fc0b452ebb7966ad4b88ea773aa07",
          "de67a4eb8821625d4451734993d93e0fafd2c55c761afb097bfccba898e6d634be975d5f2ce8d456785a089c9b40724d"
          "8ea41095c1cc80f070c3ababc9258e5eea504831b034baccff61d8f73c220d5bdb1244c8a675f2d6081abea8f59088b9"
          "9583cae22f8bd37fa030f94d5bfe1c9e799aa71bb41874b17f",
          "8665ecac1758be7eea0b5f482ce8024ce3c78b3f51af3ee4e0b440f24db2f451" },
        // #14: mlen=105 adlen=57
        { "0d0b70db983f4afeac46cb5e042ca51a6a85cdc500f2dfb2f97282d2f96d3235", "a1280a20ba18cf8977c63450318ff1f6c4303b20c111fc733212e37e11cbd38e",
          "d9db68a084a6aaacdbfa1cfd7ab1f9b4fde06f18ff093d9f5a04afb9f1a23a573125906fbe126e8fc0f51e65465a09c1"
          "167bb6fbb623f311fe07f564ad4216a01b597d4d756acfc736b905a26dcbad3c6aae8bb7043039d06561ff597924d623"
          "767105024c170113b6",
          "0a9d9525935e346ede23c3eee268c24f1070959d392d1aa1c4234cc19cce7807c477ac8e9062ff302015952aa9106de9"
          "db40c8d20e022f3617",
          "2f517ff86b32f3841fd9cfd34fbbf2bfb77b190dd2bdb74f438914d95809d52d20f07af6fa7a03913a517a6cf3dc5910"
          "45eb4fd7fa0b55d80ca54d48ee85d56841fd44db7585e5d0ad8f27264751157be2190b85f224623a40c4c821cc8c7c68"
          "0c548204e7f742d749",
          "054df03cbd4f45572ecee0a8fe80b37eeca1f17881bd12c42ad6575a5ef304c5" },
        // #15: mlen=44 adlen=0
        { "8011b1043674d753172302aa123478a121640daf4317957545749d0be6a91698", "57bd1ac0f3db407989f88a762f60b3eabd03d3bc3bae577f3818b15c0974ae9c",
          "be1833fd169fd745acaa7d8584c457657433e6a3237225a086d47806804120613d78344e097ecc6a5f869d07",
          "",
          "e34dff511e16bf12570a6828843c414b8fdced120db36ea0223e8700f57bea4c9dfbec5d3195caa633d52ee8",
          "0ac3f0459608a7f38b5b77c3f38c73f9ebc48253b316830b9583bcd51ba5c995" },
        // #17: mlen=112 adlen=40
        { "2eb12f163119cd1262e0dbb26338486bc75c183026cbc71bed601f6cde324bb7", "c59654bef68ff95760ce8fdd39f480a3655c650647d00e49620b9938f917535d",
          "9cf103fd377ee14f1fd775530b5153eb31789755382697aef6008f59b0404bcf3fe34509835308cfac8cfed2678f5238"
          "15615423831317ad7770ef74145db7a72ca9462ecd50d7b19a0d50e894bdadbb0f63d6624c80c85836bfabf44359f700"
          "fe04b5e6bf1db1b4ded24fe9054e7318",
          "a3fb893a7baf646371e92f3c34c6700e6a9306bd7e905a25be4bd7d6239416ca94a1a31b59068729",
          "22139c2d9bedf4a0535c22de56fe441df6752a692a99c10c186b439fde9954e815d6e81d0bfa0a7c3caf608083433e9b"
          "8d32321392f41ae03e5b67cd7801362c371223a98989b00c79fb42d4b25cc222ef6a4fe415654030e67ec50644bbc93f"
          "e83c20e1a30259a14ae1ec82ac4759d8",
          "83b054697569ad69e55ee1b1491b9353255c4cef4c0f31a0db8090b7dd06ce0b" },
        // #18: mlen=42 adlen=42
        { "553928dbf68b2dfdacd75bacda2cbb4fb33d81f55731f8ac6615631ed4169784", "92e86bd57fafd57c88a090397a72f7af5967fb623eec8892b358abd1665f88ac",
          "b305ac06529bc8483fdc6d765a535ccbc8125a27b8d72fa2450053ad4be45beede300f87e035a05538b3",
          "1f80c2c7694a35f5653ab2fc2cc93614d959f2136bd4cf2918d2a20d6440e8ae73a652e08b7987d1df8c",
          "4885419082270c83c03f5d4869adc63cd2f940bf527e8474c7c61a748fc883b74e5ffbd8b0cd3e780a92",
          "ef4b2bbe41b9c4e58e207fe9fdbb0e9aed224989d9b9a77e78003b1c2fd7bc31" },
        // #19: mlen=96 adlen=109
        { "4d6ffdfc693ab2d94d760163bb9b31728a2762c26236f04859b7b31b98c0e159", "e412d9b3b1b40c740ce56cdc0bec430c0ba4f95f5d83124244cebae8295b31c5",
          "ff03d03191d459d57a628a8d69d398214699bf88c2ce8694e2dcbe6d9c987056a50319ef387363b6266fb8d3e15afe3b"
          "2eeb964800799c0686c3d6f0b27d9523592690ba7d765e9a21d62e113788076267cb50193d64b43156b3683e7ab0758e",
          "78c96946f355a8153659dd06b41b75b8109b0c31c0d6ff2feb90c875a3b211f01061f73a88a9d42550c807676dd3a405"
          "516da1d2639395cb4df526e046d621ec997c1c4fc858b60ff9051f2ee093fc8f032f367bf25b3f32361d8aec5c0e239d"
          "bb129316411e96da198d6fb512",
          "4c3083ed17c2de0981fcfd38bc244c6e6d0756fa3c23b22fe770c0c952159b6e112c6f4b6686aef4bbd0be98bcb2c32c"
          "44af09425f70cbe031d08798ef258a820dcd3029d2b0a857615a939e2a008ef14b949f5bd4ccb4607c8a8a4fc5f1236e",
          "bfa101aea1676baa3b5205d45b572425ef7da415984796d2b76f01fe5e37e919" },
        // #20: mlen=125 adlen=48
        { "c9bde00bad3334e5792b5c1e5a8fda8ea7f7eed152c0a3feceb565208017af73", "2ee41bb5c473206ec00ec597548161573e8c2adf7387f88e4fcf64c84a2f5905",
          "b7dac21337a4029b80ae0ce7578eb0eb45c76eb84d68c4dde73690162b377118237fd1f466ce1d7d7638945779e0b148"
          "047c61b63c7e05c877f75f4a52865efe94fb65ee99e4b0d79242c69c3aad1c425d017a71eb26adc2594a6a5216eb72b7"
          "36f40a91001b13c91d13d5b057ff05ea883ccff3eb6033679b7b41a62f",
          "26b1dbda8f99f9492955fab6891c3de81e4535ed525fdc6d98beebef67067fefb1674359525cacb2119d016876feb5dd",
          "6249b44800c9d47ca20cfc1726563befbedf20639735d441917f52cbcc7ef72d5b095c6a15a7bf1239f8b93a62d9bd5e"
          "7f47b05ab9f12b4da72392ab4ba093de150fb8b7b61ea92e6a3204b178e2e1c066102ea9aea6241749ebdfba4b307ab0"
          "a5471d1d43fc930dc29a1ed5e687d41883c69d0de38ffdd25ce4d8ea33",
          "53bf7cee58474076330dc64d1eeff748df909700dd942d8d59da2447b9f84fec" },
        // #23: mlen=12 adlen=29
        { "e365b446bd38e82eec6f10ef0ab21ee388ad485f08935ab5b27d812c77c8c2eb", "b5d1efebc38b831ef46617bfc282e47e20a844c326c35981b0af5e97cf151cef",
          "a04e8c9a01dcc73001fc6a53",
          "c6064f3f164594ab4bfe65c76c753d81e110a255d3cd9e512c3ef38d54",
          "bca8a253d89f09d92b364671",
          "4ef59bdf41cb393aada19b052ed31e568855c6edb37d286078ea3c8b8969061b" },
        // #28: mlen=75 adlen=64
        { "f2ffec87944d3061075de87038cfed1797276d8c6857433c9458677f67e090b8", "7aef11906a27ec49ace7193bf61183e4c67835c9c26b50381c7ec18b81e4bac4",
          "1460c5acbb61d26d0af31b565d3696e50d6dc022c528f11569dde0ad691b32fb20538236028d51b98d441ba5ef527ace"
          "9a59ee9784c9ff14e8a1d03b2450bb75aba2a91ddf1827c14ef131",
          "d95e3d49c922e70c4c34edbde880239eec5bad1c13158a07d6a13462a8978158cadb13ee5f2cc95a21673b6ce25d7c30"
          "f0c8acdfa55c259c6d03a4b25d22fa65",
          "bfb8d129ab8a3898eb71aa46e2d976c44d790803420ce1b6c77c399ac19842b1486339571b82d84a0461a946664a68e6"
          "387b4bec56ee0acc08bec0100175d670ebdb6a9c36fcd13126762a",
          "2956d57d9089e44a5c34400b411210dd35c261a9354f6ef1d07235224f2f3b85" },
        // #29: mlen=104 adlen=16
        { "5c2b46c8c5e5a4661c26ad19be10a781cb845c824a403a6bb708c738e90d9c46", "b80e79dc4b26bb75d284f0346697816efd98b0412549d4ab09e5453b14a1362f",
          "ead1a7d4f2a4d5d5a979e16cdbd32005a5b5506968e18d68a598ba5c0fe2863839ecb029450b0b2d0966558a890caf2b"
          "2c5ee750be7784f583b6d3e0bed0cb5d4fa6f7fd098dbe05ba8416c400faf2034c3074dc1ef7d7ee63ea1cfed18526d3"
          "94c445848a959fee",
          "9aa44ce6a70328ac8455e5648a34176e",
          "09633b3761e956bca7602b876d9b5429e64e56c2b39ee00484ce92ffa7395751cfd43f6c46ac3b0552fbc2280404df44"
          "6cdd8632a41fc7989c4d603b3f6b7efbd075aaceeb3e01bbe60ef88b696ac22f41fec3d7b65b35c0c45d8bfb0cc99d80"
          "316b913968089e28",
          "2e1954215e5487ac78177f851a580067ff75de270b664e962240f38a42f67150" },
        // #30: mlen=119 adlen=64
        { "05fead6fb5a0f2be62533e0a29377010bac0a25c753155d56de340a094e7c426", "aa6663a20646cdcc620fcf23c31deac51ef80b68bc8c5df1f91197066763eb39",
          "5e9162142770449251a541fcb7798ee6a59ef56c518a96742b4186f3d27e3a8ef9855dd5c0c586cf957725726a5d9518"
          "919c54b07b87630c8f5079b49aa656d03b0a10ae7aa498c1eaf4bf0660ff999c8080524843ff8a8137d95921b8425ff6"
          "a3cbac4f52c198f9932af067ef734ca00b682f6ad0ef0e",
          "08fffcc594bc5d08a1f6473b604289aa885d9b199c2acbc56493cbd740a5127ed1e218a719076a310301954e54f38b68"
          "2eb9f50cb05d2335e7d82bb88487f333",
          "211957354e5bd50bc25009e2cdb0adbad870d25aa02c3759bebb29ea2de74afd194aa82edf530086b07569588e5fbc36"
          "18f762712d63844c8177d7d24b2d9d5f6be5ff98cf7ea678ac7022a15c17430c20213ef276284ceb7f35e00f2b33a124"
          "a88d9aa6ca5eb37afa4076b051f94e2c2018cd90bfb499",
          "79edf8d61edd0c8d23e2337c3cc7db00a622215540796800dd4c01be03958587" },
        // #36: mlen=46 adlen=115
        { "1caf2693aa463ae93d13f6b687d7a19fdf047c30d054c2fdb5e07e88b5ab5a08", "86603e8c83f17abf6af5d8571e4f78955440c1aa97bb6a6e146d787fcc1d4e50",
          "ea9eddcc4ac951c60afae654d012b307f21c823da4ca44b3276c7f7006ce82c07d8caefa665636d6f5031e31bc77",
          "cfbaf3cac9237f19986571ec0e39ed09b1a5107cfde57bea24b3f5dba56bb7db7459c4fa82ade76f63ec59e9400f4f51"
          "188734811bb563131f49c2e2d71841334b596a63470b2dfe3a421cc657129b449628e5c1ce39a57ff07f2130643a7256"
          "37014eeba27ff95146a99a06e2584cb9bb3f12",
          "de9912a8bec65989ba4c82daaeebb14aa21246bdcd52d01ae5d4e1aa3d70a12277651c75d62569349e0e4cebd80b",
          "7af7d1875ed73bf8db71707992f07ffb5fcaa82f5a821c0d3a9000443db1bc45" },
        // #37: mlen=80 adlen=107
        { "cb1a72f1752672a7fc0ccaf10c76257c047fb767f42c3f23cabc78d35a8cae4d", "a48db1fa02317b85f1787ed869f1b13250d7f582304594fdf4a2899d50e22c3f",
          "25f09554ecaab85e2d00c6e76e31222a9ac91b79fe9eccadb6fd38bdb948502849ea5ed30470d0d94335a64fbfe0d01f"
          "5a5b6afb95a40c5406c43e022520c2c727d53f66846e35fa3fedb4c7efa44a16",
          "72c88fc1764d922dcc6f3a61e444213e6f7877ef585c65a57ab9814813c9ae73b5a4619b316a6cec5e34241ed2f3cc53"
          "0d105de4e5ca356ad66cb95f2aef4cedff42a0522f5f7d9d7a9f2fa54901e914a5b733791ef5236b78d065335477a5ea"
          "c9d626da94b36a76c3f702",
          "ca4afd213fa1a13a18e6ec57488012451cb648902e367edf72902944422f3dddbfd4946f5b34292c39ddd84e5c7691af"
          "a22f359cec4dd14afd210a5df66a5799aea2bb57c17f29fcf9c3aeb9c528c260",
          "21ac240f5e13978f67a5a233e6ecadc5e555fa3c5637d29661ed9196556b231e" },
        // #41: mlen=39 adlen=107
        { "29f1e4ad600bc24f64d2a99669f7317add8e61d5d3a3dcda1968b398e7ab3a8d", "15190e8300313a59c0c6c4dcb0358cc88f7e856240091f1b1bc599a2ff3aca00",
          "b01d68b18df703fa9d166efd6aa3ac15fd48dc99f4ac806194f0f500be971560b3135ae422095a",
          "cf90cd99d137d5bb0203c0a97f5d4842f4c0ad975df8a5dd863269b37e94fbcd941f220736ea4987e9cfb73b17c939be"
          "601c40daa99133b9a0f98bdc4e4b77bc47d307354119a2fab2771285048a273aa859f99a4ceb6bcf5bae19d7b9d76652"
          "9d53e29a384304af8de07e",
          "321523038cedbe3da195d701835cf62941e6260c3c4ce5466e1fe14b36bccfc0bfcf4955f1f061",
          "75b72ea023300ea4fd27926d097e49d4955c6dd6747ea38d2c33bb21ca61e168" },
        // #42: mlen=8 adlen=62
        { "4600adc836738547a6e1fb257d6a7c290d4895dcbff2e071dc38bac04f338a30", "ab2f8f6a728f1bab52541407027c51a1619c1db32985120f5ab40cef22e08edd",
          "f8cbb1362eab78f7",
          "7adb0527d13748950fc60a8f6879ec1116c73817e343958965359c8f7f7465b26fe5da1f43112465be72751de6846004"
          "56e97856aee757161f6157dafac3",
          "26baa1fd39aa3c33",
          "147f674a8345d803d23714b057bf8c030ffb002b6f9dac1a1a7d7582dd89b746" },
        // #43: mlen=89 adlen=113
        { "01f560d41c4dcdb3906e687c5fe23c070b9a8a9653987706f3357037d7d512d2", "a47633929b3fbfafd2c29d25ab1e8e3b6402aeecff25d60761355ef44ace4cb0",
          "6e085d40606a8042e71fc16b720cec34e47d9bd5e0676f74b6be17f7c78b53ab910980ed7b0622c248006c0ff9e94b66"
          "b8944acfe6857f3241d0abdd8d70a4a81eb0c0a86dde53849e34643b9f37e173ed218d88bea948a240",
          "d7631a8eea17f31555b3d4abf16439f763501827180a1f5e58389f796f1c0b468f41ea3ff2e1c76cd02d180c9df1e19f"
          "6524b2a8d006f2f954f340a2f0a5a97946d39c34b935f5da5b081f18ecf457b6f0b33a37185ea8af64aa0ade40026580"
          "dafe1a5dfd2c4a7acfa8a8254897c7fd3b",
          "c309272b71ffd6ee1ed80b91ad22fe88d0488fa7c2dc4539f3452d6d6d1508c162bb8df3ec1fa5ebbd8ab738387d5b0e"
          "649cfd83e17b3e943ccedf4548171c82cb8f0b2ae39c48d78df07e282cc40c3068dc70f1fc080114c1",
          "786061e81d76bc07550cab11bc1ba1765b41e2967bc8736e11029968cbd85ba4" },
        // #46: mlen=118 adlen=89
        { "a657ee84d894bb98db137d57121d149eee96447353225f701b4c0c8bfc5d9497", "1edcd529feb85cd69e484c0989a9b60776437dd4dcf988e3bfcce5bead13f331",
          "4fd8a593ef021f81603e430e0c9eef2fa2e7cab56d86b13a9ecfee70fb96a7bb0cdc7b23df061ff73b96a289faf0c075"
          "6f0c2e4692489e58391eae3574539f40189fb8735735deda0c8d71ff361155a0d3a574b193a31746f0272001fbe8f840"
          "dbb4f16f522c90096ae5d76209af6eb2e423109d2bf0",
          "fd167c49f8e588d06df1ac5d94d61538e399d0c531aa0ac0f9a1c030dbd3e8b649796917f4f8f8078b104352b1564a04"
          "2ccffd30c19340e067d4f17b0bacc47e121a8808d06b1ea6bcc06ffbc1bdaed0999dca79212c8df6ec",
          "99f8a75bbaef042167ebfb927e6ff5bdc23e3a2084e539780ffbdc20d9be6d21e761381f23937f3179aeff80469ba65b"
          "8d2169c5695ad2dc64e39d165eb7e57ded4ab07182ca59e516b41dc463c2093425d9dcf6a377312e4437d4416d063324"
          "d24945f86c57a060cdb4c182fb3c9094e6c43af38a8d",
          "977af18c47b4e1bf3f6ee45ae865d3e3dd6ebc953c4ee636c3e560beb433c5d6" },
        // #48: mlen=108 adlen=66
        { "b38e1805f202898c64975134d2369d065b808ca28ac8562bef3dd97b96650b3c", "1bd55d1c60a6f84094c52906fb2f711aacb93831fee6dc27fb6a746f4c412012",
          "d4817734cb56d6bd3321c7a3dc4e23d5481703d72075ae6127f1f366a0624bc1e2ac175db9ee2fe4a9c0a016d1d9955c"
          "652970a05dbb4b16f7d2e7275b9a915bc39df5effea00190b77eeb6fd056cb2951cada1d8ef9c8e9ca0de03d7b2d659c"
          "947c9a82ab512641ae734f82",
          "1be672d193cec78c85db5636ebdfe4f087ab5a2fccff0885fb39b60f901e8d6921e4d285b5daa19dac9032d6b03a2a81"
          "740ba4ffd833e90a942253e607a800c1ff92",
          "5be3df33c976077a603612ee85cfdf388953e958e5ee0c53271058258dbcc1fa8e493e044467fd00229b643376448e99"
          "58dae478e59808839daa20c983159be864a905f97e7e00bf82ac97bfd9d005f3282886b7c1df0b505f75741c518bedea"
          "91f800fcb135688940a38022",
          "5fe7fac48f68d44c9c8d8be7ac95025fb4bf890650af092d1228c4858a8c1a9f" },
        // #49: mlen=74 adlen=36
        { "bdeb596ed2056c8a78eb1f33340d2b8b0789cc456d6e8db9bb45516233900e29", "7096012b1bf4f66f48c1f26ab48d8594d244be86426438993ed1cfad84376c90",
          "5f3638865cb87188951620dfbcf77c6da914372635542fca218b74f5808090f8ff72919975744dff1a6693a759da7579"
          "ee01c449246e12783546333d9201ddd0e9941acbedc6c1995b09",
          "186d83c27e4831ef0c472840230860513d15b0f3df6a27ce2decb7a53c15e38c3b043c8a",
          "399b4dbc243c979b481b18a29415fff5065c9da5367679a2bbe60b5864352fa096c65cc51c9d5054844b8f0cdacbc638"
          "f8defdc81b7d80a9f5b1fa58201f0c513dbb192ea93a05dda87f",
          "7f5644fb9adcbc68a86621c4d6d7b1b32a62cda6ccdbe2d5fa8e708a4de8a3f5" },
        // #51: mlen=18 adlen=90
        { "50034fdf7205a542055cf377ef546d1fe01ae8c7581806688c04279aeccf76de", "215de8afdde0916097f91dda6fecbd18c5e65bc685e10488e99a225a5887d92b",
          "dcd4b2ef9dd40e50adc8ce3fb674801d650e",
          "6f1ce70899b24793fd8ad89784d62ebc43b750faa9bc63fa44e707cb6877dc400dbcb85500a386add1052bbf090c637c"
          "8c618428040226209023a0db954ac26824ce40ba5021bb19d1a65ee3e3c4261c9801bd85b9c282753072",
          "df3e9901518fa830aaacab9a5635c861aab5",
          "b2a32c41c181a42175cd9108135f815663981c51f43af547e7942f77ebdc46aa" },
        // #52: mlen=2 adlen=87
        { "782358a4bf3258130b1ab345e76184bd37eeff55c6efe7b8489626e5ba01741b", "3ae5c450b1f426cedd3f5445ee785b6c2718d587f4239053cbad839e7e19f044",
          "454e",
          "bc5971d3c8a7284f6218685581fc0e67572e5f124405136021536da07ec4d443015de3a708e72eaa943f5b5fb8f48547"
          "2a3999e95dc3ab7cf72ecba533006681a49f39b5d5768e9ed22e3cfc7d20d3744308a6518d46a0",
          "8a75",
          "d5cf51a52be53fc9b297efd9c0f3421e598143718f7f46fc3dd542f166a65e8f" },
        // #53: mlen=26 adlen=11
        { "5958a371e26fff28efef8a6e71a0b81b4a14e3cf57ac75d215376e050468806b", "1293abdd7b6c43483f8caa43836922fb3a92feb4eb1476f4fa5ec4f06a0431f7",
          "06544eb4f4baafd8880df8a4e1da38d3111149aef41669b56ae2",
          "5f6cd8814bf4915f08cbf1",
          "e4b718de939d6fbb41e32b57098b08fa16bd39ccc085625d0546",
          "d1a48afe22b3c7d28e239f103b93b0a200428f4bb8e80fcb2e5110fd1ed780eb" },
        // #54: mlen=68 adlen=122
        { "7bdcad0b011743f3dec12c999ac89b28f60e03564cd076fbf0183457846e606b", "e008a14a3fb5e56e89e02d5fec31b37b3fb6357682bc3db3368f25987f6205c2",
          "c2bc1a650114c6d522d2f928c6a65fb6abcca554336dfb70b51f61558a349387b35462bba19c3f8f13488fd4812f9d6d"
          "58d04a6ca93e8dad62a5f695a0834dd99f876294",
          "18066e9f8cdd274090f075f3047a455ca6be1ec4d1672acb013f328a1d981bece9b9c9f0f38dd25db8523b885b47cfab"
          "a4844d5bb3972591bdc2b68062e7fb0e08773506e7851a18fbc6cd29c29358a347ea195a10f5a7d874010909278395f2"
          "f9820ee8eb6655602b7b44c6c1642b9c157cc5c1a454e1b18b46",
          "bcf887985dc0e45a156b522f02c4b2adbf90a2b30f4a30ee68505df9c61d3857a6216a827c98d1d7df6dc664a52632b6"
          "1361f4d86ca646c83f690015535b149c545efed3",
          "bd2cbde77f6ef4955e956d440226534942f7a41a659eb826647b3a99a57efa87" },
        // #55: mlen=102 adlen=109
        { "21505992872622190e47da3d4a985ceaf356b35e096429bdff8e4a21fcbeccac", "8b4ab2427a4177cd205fda2b2b31f8f5ecc5ff591262791f88f54535f3054977",
          "1ceea40aba4d9328718e9939eaba25f5b558ed0df855e743cc958506b4d0c5e44d0690b9637bf94a30e861ed9260e254"
          "d602be895f173453a7977236846c4687d2b38470f074b07e16e67721646989421cf5081555fa7bef42a830666e6c2c9b"
          "61ba14932210",
          "106f5b1fed2f5d3a102733ef6fbb7e190e508e7e8cb73766bf18fa4d50b87d6f83144f9b616dceef6c0b085f09e427f7"
          "f0985a535fd9edf3bc05aa8dbc0db601cb4f90761420164fba50a68c5a87322fecbe28c902b03035e88d499af758eb20"
          "49659f2561ee6c5210579f8c0c",
          "1562c0d501518e478b0c5561b32a79bbf5249d0eb8db411190454b4f3a458bfc200f65af91a22eb0fce63c726cb2b510"
          "23d294c9a35e0ff842da517d6f91b6126c0ecfccd72cfc35d7ef98f11ebbb4cd071c2eafeda598a5ccf4e09d8cff52ed"
          "583d968525a7",
          "1dfe935ef87488e515897c850bc899d4a9844d512969802e98be90c0343bc146" },
        // #57: mlen=98 adlen=1
        { "88f3c9cd7b2f27295c5defc7ba7071996ae5d558192c1a4788efe8a3bc3559d0", "d1ec8bbec1bd039825009a00b35522ad81c8de7bbfb698551f880b05319330c6",
          "5fc7d4fba7f9018c91533584a5e61be925559d1c8b1270621aaa2f0f51ec69ee7b14628841e2a234f3ed4279e589bc40"
          "339928d600f79a051db41699a98a263864ae34909a7c37e9c833c106bc5e996c730879d7b94d18c87741a3e72bbbd30a"
          "5c7a",
          "9c",
          "efec904dfe14b42ca52b083ca46fc0ab80877b425e8cfbafdbcdf8600bcaa64afa05119ebbdd0f8db82ae71236c24cac"
          "6cc53b9e0ec701f94ae4a9217f9f63ad426394793cebb1f0af7ba4bf0dc8ac621c48e2a435955afc79f095ba518e20bb"
          "e360",
          "1ed588fb6966a006fccc5f5a6e57949f9389f89c3e346bd8851610a0b159e958" },
        // #58: mlen=86 adlen=2
        { "db7c3c7c7e5aa8a1c5cd5173bfb0d25958db4038a3d8deb705c102935fea8f21", "315686635d388d5b2ecf3b12a8450280d92555a6920f6ad3b48ba3b4f8ec5053",
          "939b319d85880267f8be72b69d2a22ba2460bbd7ce68cfc9398afce09c4f0005cf510db2aa894dcbf08120f07640255a"
          "9464056ec16765521f23d602b5af51cab7133cf01123b3038cd7dc47fdd7801c46fd628de0aa",
          "b2da",
          "783dbc7d88eb43f69d7330326e58555f58df2e75a019586beb5e4a303a3b3e4439677fd7e00a6826372cb2bc15c25ab4"
          "45bb0dfa8aae1f4d9b5d6ded219e69037c161c7fd5911bf08e3179419dbef05d37df75fb19c2",
          "b96409a14cdac61218fcc2ece389e570ac6c665856f36d98fa01be4d767b960c" },
        // #59: mlen=47 adlen=96
        { "cf1f1538739072f57ebf0fa4090a63c72cf8f5bb904effb6051073596ed1dd19", "41e11d23771626febef2435eaefddf0c93a484ea6c4c7fa0bfd48f93e50b646d",
          "a22ba67dac88efd1988863f8991bfc9dbb9dc1a34e3866b0a51e088671971225fed3bc0369b0bccb436249d6fa30e7",
          "80d7f1fc70203411f8827cd7eec9888f26e39e055d8fd1c2876e1e252b3b14363f493100f157d8246c29b973a490338d"
          "fa0bcb52221d260875a65e22a56f655a55330933b35e2937c53a625a55bf40564fc58f742ecf54aed0536ca3f7c59f6d",
          "b3c76b03eb90c78ca281f178f30a92a98ed9966698ceb24f15f6c5ebf2e65ec4880543847005a58006a0829d2d00b3",
          "22f4354c7487a2db0c8c2249fe96909ea1cc9a053447b4a83ad396e3b3ec87ca" },
    };
    for (size_t i = 0; i < sizeof r256 / sizeof r256[0]; i++)
        selftest_aegis_one(t, "repo-aead_aegis256.c", (int) i, aegis256_encrypt, aegis256_decrypt, r256[i].key, r256[i].nonce, r256[i].ad,
                           r256[i].msg, r256[i].ct, nullptr, r256[i].tag256);

    // --- round trip over every length 0..2*rate+1 for message and a few ad lengths (exercises Dec/DecPartial vs Enc)
    {
        int bad = 0;
        Bytes k16(16), n16(16), k32(32), n32(32);
        for (size_t i = 0; i < 32; i++) { k32[i] = (uint8_t)(i * 11 + 1); n32[i] = (uint8_t)(i * 13 + 7); }
        for (size_t i = 0; i < 16; i++) { k16[i] = (uint8_t)(i * 17 + 3); n16[i] = (uint8_t)(i * 19 + 5); }
        const size_t adlens[] = { 0, 1, 15, 16, 17, 31, 32, 33, 64 };
        for (size_t mlen = 0; mlen <= 66; mlen++) {
            for (size_t ai = 0; ai < sizeof adlens / sizeof adlens[0]; ai++) {
                Bytes msg(mlen), ad(adlens[ai]), ct, tag, out;
                for (size_t i = 0; i < mlen; i++) msg[i] = (uint8_t)(i * 3 + mlen);
                for (size_t i = 0; i < ad.size(); i++) ad[i] = (uint8_t)(i * 5 + ai);
                size_t taglen = (mlen + ai) % 2 ? 16 : 32;
                aegis128l_encrypt(k16, n16, ad, msg, ct, tag, taglen);
                if (ct.size() != mlen || tag.size() != taglen || !aegis128l_decrypt(k16, n16, ad, ct, tag, out) || out != msg) bad++;
                aegis256_encrypt(k32, n32, ad, msg, ct, tag, taglen);
                if (ct.size() != mlen || tag.size() != taglen || !aegis256_decrypt(k32, n32, ad, ct, tag, out) || out != msg) bad++;
            }
        }
        t.ok("round trip all lengths", bad == 0);
    }
    // --- bad sizes never abort
    {
        Bytes ct, tag, out, k16(16, 1), n16(16, 2), k32(32, 1), n32(32, 2);
        aegis128l_encrypt(Bytes(15, 0), n16, Bytes(), Bytes(3, 0), ct, tag, 32);
        t.ok("128l bad key size", ct.empty() && tag.empty());
        aegis128l_encrypt(k16, Bytes(12, 0), Bytes(), Bytes(3, 0), ct, tag, 32);
        t.ok("128l bad nonce size", ct.empty() && tag.empty());
        aegis128l_encrypt(k16, n16, Bytes(), Bytes(3, 0), ct, tag, 24);
        t.ok("128l bad taglen", ct.empty() && tag.empty());
        t.ok("128l decrypt bad tag size", !aegis128l_decrypt(k16, n16, Bytes(), Bytes(3, 0), Bytes(31, 0), out));
        t.ok("128l decrypt empty tag", !aegis128l_decrypt(k16, n16, Bytes(), Bytes(), Bytes(), out));
        t.ok("128l decrypt bad key size", !aegis128l_decrypt(k32, n16, Bytes(), Bytes(), Bytes(32, 0), out));
        aegis256_encrypt(k16, n32, Bytes(), Bytes(3, 0), ct, tag, 32);
        t.ok("256 bad key size", ct.empty() && tag.empty());
        aegis256_encrypt(k32, n16, Bytes(), Bytes(3, 0), ct, tag, 32);
        t.ok("256 bad nonce size", ct.empty() && tag.empty());
        aegis256_encrypt(k32, n32, Bytes(), Bytes(3, 0), ct, tag, 0);
        t.ok("256 bad taglen", ct.empty() && tag.empty());
        t.ok("256 decrypt bad tag size", !aegis256_decrypt(k32, n32, Bytes(), Bytes(3, 0), Bytes(17, 0), out));
        t.ok("256 decrypt bad nonce size", !aegis256_decrypt(k32, n16, Bytes(), Bytes(), Bytes(32, 0), out));
    }
    return t.fails;
}

}  // namespace ref
