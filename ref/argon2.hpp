// ref/argon2.hpp -- Argon2i / Argon2id version 0x13 (RFC 9106), plus the PHC string format used by
// libsodium's crypto_pwhash_str*().
// A direct transcription of the RFC, single-threaded, written for clarity; no libsodium code or headers.
#pragma once
#include <string>
#include "blake2b.hpp"
#include "common.hpp"

namespace ref {

// Safety cap for the reference model itself: argon2() refuses (returns an empty vector) when the memory it
// would have to allocate exceeds this many KiB, so that a fuzzer-mutated m_cost can never stall the machine.
// This is a property of the oracle, not of Argon2. Callers must treat "empty" as "oracle has no answer".
#ifndef REF_ARGON2_MAX_KIB
#define REF_ARGON2_MAX_KIB (256u * 1024u) /* 256 MiB */
#endif

struct Argon2Block { uint64_t v[128]; };   // 1024 bytes as 128 little-endian 64-bit words

// RFC 9106 section 3.6: GB(a, b, c, d) -- BLAKE2b's G with the additions replaced by
// a + b + 2 * trunc(a) * trunc(b) (trunc = low 32 bits), all modulo 2^64; rotations 32, 24, 16, 63.
inline uint64_t argon2_fBlaMka(uint64_t x, uint64_t y) {
    return x + y + 2 * (x & 0xffffffffULL) * (y & 0xffffffffULL);
}
inline void argon2_GB(uint64_t &a, uint64_t &b, uint64_t &c, uint64_t &d) {
    a = argon2_fBlaMka(a, b); d = rotr64(d ^ a, 32);
    c = argon2_fBlaMka(c, d); b = rotr64(b ^ c, 24);
    a = argon2_fBlaMka(a, b); d = rotr64(d ^ a, 16);
    c = argon2_fBlaMka(c, d); b = rotr64(b ^ c, 63);
}

// RFC 9106 section 3.6: permutation P on eight 16-byte registers S_0..S_7 = sixteen 64-bit words v_0..v_15
// (S_i = v_{2i+1} || v_{2i}), arranged as a 4x4 matrix: GB on the four columns, then on the four diagonals.
// `w[k]` points at v_k so that the same code serves the row-wise and the column-wise application in G.
inline void argon2_P(uint64_t *w[16]) {
    argon2_GB(*w[0], *w[4], *w[8], *w[12]);
    argon2_GB(*w[1], *w[5], *w[9], *w[13]);
    argon2_GB(*w[2], *w[6], *w[10], *w[14]);
    argon2_GB(*w[3], *w[7], *w[11], *w[15]);
    argon2_GB(*w[0], *w[5], *w[10], *w[15]);
    argon2_GB(*w[1], *w[6], *w[11], *w[12]);
    argon2_GB(*w[2], *w[7], *w[8], *w[13]);
    argon2_GB(*w[3], *w[4], *w[9], *w[14]);
}

// RFC 9106 section 3.5: compression function G(X, Y).
//   R = X xor Y, seen as an 8x8 matrix of 16-byte registers R_0..R_63 (register k = words 2k, 2k+1).
//   P is applied to each row (R_8i .. R_8i+7) giving Q, then to each column (Q_j, Q_j+8, .., Q_j+56) giving Z.
//   Result: Z xor R.
inline Argon2Block argon2_G(const Argon2Block &X, const Argon2Block &Y) {
    Argon2Block R, Z;
    for (int i = 0; i < 128; i++) R.v[i] = X.v[i] ^ Y.v[i];
    Z = R;
    uint64_t *w[16];
    for (int row = 0; row < 8; row++) {                 // row-wise: words 16*row .. 16*row+15
        for (int k = 0; k < 16; k++) w[k] = &Z.v[16 * row + k];
        argon2_P(w);
    }
    for (int col = 0; col < 8; col++) {                 // column-wise: registers col, col+8, .., col+56
        for (int k = 0; k < 8; k++) { w[2 * k] = &Z.v[2 * (col + 8 * k)]; w[2 * k + 1] = &Z.v[2 * (col + 8 * k) + 1]; }
        argon2_P(w);
    }
    for (int i = 0; i < 128; i++) Z.v[i] ^= R.v[i];
    return Z;
}

inline Argon2Block argon2_block_from_bytes(const Bytes &b) {
    Argon2Block B;
    for (int i = 0; i < 128; i++) B.v[i] = ld64le(&b[8 * i]);
    return B;
}
inline Bytes argon2_block_to_bytes(const Argon2Block &B) {
    Bytes b(1024);
    for (int i = 0; i < 128; i++) st64le(&b[8 * i], B.v[i]);
    return b;
}
inline void argon2_append_le32(Bytes &b, uint32_t v) { uint8_t t[4]; st32le(t, v); b.insert(b.end(), t, t + 4); }

// Argon2 (RFC 9106 section 3.2). type: 1 = Argon2i, 2 = Argon2id (0 = Argon2d is also implemented since it falls
// out of the same code, but it is not used by libsodium). Version is fixed to 0x13.
// Parameter requirements of RFC 9106 section 3.1: 1 <= lanes < 2^24, 4 <= outlen, m_cost >= 8*lanes, t_cost >= 1.
// Anything outside (or above REF_ARGON2_MAX_KIB) returns an empty vector; nothing aborts.
inline Bytes argon2(int type, const Bytes &pwd, const Bytes &salt, uint32_t t_cost, uint32_t m_cost_kib, uint32_t lanes, uint32_t outlen,
                    const Bytes &secret = Bytes(), const Bytes &ad = Bytes()) {
    const uint32_t SL = 4;                                   // number of slices ("sync points") per pass
    if (type < 0 || type > 2) return Bytes();
    if (lanes < 1 || lanes > 0xffffff || outlen < 4 || t_cost < 1) return Bytes();
    if ((uint64_t) m_cost_kib < 8ull * lanes || m_cost_kib > REF_ARGON2_MAX_KIB) return Bytes();
    if (pwd.size() > 0xffffffffULL || salt.size() > 0xffffffffULL || secret.size() > 0xffffffffULL || ad.size() > 0xffffffffULL) return Bytes();
    const uint32_t p = lanes, T = outlen, m = m_cost_kib, t = t_cost, y = (uint32_t) type, version = 0x13;

    // Step 1: H_0 = H^(64)(LE32(p) || LE32(T) || LE32(m) || LE32(t) || LE32(v) || LE32(y) ||
    //                      LE32(len(P)) || P || LE32(len(S)) || S || LE32(len(K)) || K || LE32(len(X)) || X)
    Bytes h0in;
    argon2_append_le32(h0in, p); argon2_append_le32(h0in, T); argon2_append_le32(h0in, m);
    argon2_append_le32(h0in, t); argon2_append_le32(h0in, version); argon2_append_le32(h0in, y);
    argon2_append_le32(h0in, (uint32_t) pwd.size());    h0in.insert(h0in.end(), pwd.begin(), pwd.end());
    argon2_append_le32(h0in, (uint32_t) salt.size());   h0in.insert(h0in.end(), salt.begin(), salt.end());
    argon2_append_le32(h0in, (uint32_t) secret.size()); h0in.insert(h0in.end(), secret.begin(), secret.end());
    argon2_append_le32(h0in, (uint32_t) ad.size());     h0in.insert(h0in.end(), ad.begin(), ad.end());
    const Bytes H0 = blake2b(h0in, 64);

    // Step 2: m' = 4 * p * floor(m / 4p) blocks, as a matrix B[i][j] of p rows (lanes) and q = m'/p columns.
    const uint32_t mprime = 4 * p * (m / (4 * p));
    const uint32_t q = mprime / p;
    const uint32_t seglen = q / SL;                          // columns per segment (>= 2 because m >= 8p)
    std::vector<Argon2Block> mem((size_t) mprime);
    auto B = [&](uint32_t lane, uint32_t col) -> Argon2Block & { return mem[(size_t) lane * q + col]; };

    // Steps 3, 4: B[i][0] = H'^(1024)(H_0 || LE32(0) || LE32(i)), B[i][1] = H'^(1024)(H_0 || LE32(1) || LE32(i))
    for (uint32_t i = 0; i < p; i++) {
        for (uint32_t j = 0; j < 2; j++) {
            Bytes in = H0;
            argon2_append_le32(in, j);
            argon2_append_le32(in, i);
            B(i, j) = argon2_block_from_bytes(blake2b_long(in, 1024));
        }
    }

    Argon2Block zero;
    memset(&zero, 0, sizeof zero);

    // Steps 5, 6: fill the matrix, pass by pass, slice by slice; within a slice the lanes are independent.
    for (uint32_t r = 0; r < t; r++) {
        for (uint32_t sl = 0; sl < SL; sl++) {
            for (uint32_t l = 0; l < p; l++) {
                // RFC 9106 section 3.4.1.2 / 3.4.1.3: Argon2i always, Argon2id in the first two slices of pass 0,
                // derive J1 || J2 from a counter-mode stream instead of from the previous block.
                const bool data_independent = (type == 1) || (type == 2 && r == 0 && sl < 2);
                Argon2Block addresses = zero;
                uint64_t addr_counter = 0;

                for (uint32_t idx = 0; idx < seglen; idx++) {
                    if (r == 0 && sl == 0 && idx < 2) continue;          // B[l][0], B[l][1] come from H_0
                    const uint32_t j = sl * seglen + idx;                // column being computed
                    const uint32_t prev = (j == 0) ? q - 1 : j - 1;      // B[l][j-1] (wraps to the last column)

                    // --- J1, J2 (section 3.4.1) ---
                    uint32_t J1, J2;
                    if (data_independent) {
                        // Each 1024-byte address block serves 128 consecutive columns of the segment:
                        //   G(ZERO, G(ZERO, Z || LE64(counter) || ZERO(968))),
                        //   Z = LE64(r) || LE64(l) || LE64(sl) || LE64(m') || LE64(t) || LE64(y), counter = 1, 2, ...
                        // The pair for column offset idx is the 64-bit word idx mod 128: J1 = low half, J2 = high half.
                        // (In the very first segment the first two words of address block 1 are simply unused.)
                        if (addr_counter == 0 || idx % 128 == 0) {
                            addr_counter++;
                            Argon2Block input = zero;
                            input.v[0] = r; input.v[1] = l; input.v[2] = sl; input.v[3] = mprime; input.v[4] = t; input.v[5] = y;
                            input.v[6] = addr_counter;
                            addresses = argon2_G(zero, argon2_G(zero, input));
                        }
                        J1 = (uint32_t) addresses.v[idx % 128];
                        J2 = (uint32_t)(addresses.v[idx % 128] >> 32);
                    } else {
                        // Argon2d-style: first and second 32-bit words of the previous block
                        J1 = (uint32_t) B(l, prev).v[0];
                        J2 = (uint32_t)(B(l, prev).v[0] >> 32);
                    }

                    // --- mapping J1, J2 to the reference block B[ref_lane][z] (section 3.4.2) ---
                    uint32_t ref_lane = J2 % p;
                    if (r == 0 && sl == 0) ref_lane = l;                 // nothing finished in other lanes yet
                    // W = candidate set in lane ref_lane, in column order:
                    //   * the blocks of the last SL-1 segments that are finished (in pass 0 only segments 0..sl-1 exist);
                    //   * same lane: additionally the blocks of the current segment built so far, minus B[l][j-1];
                    //   * other lane: if B[l][j] is the first block of its segment, the very last candidate is dropped.
                    const uint32_t finished = (r == 0) ? sl * seglen : (SL - 1) * seglen;
                    uint32_t W;
                    if (ref_lane == l) W = finished + idx - 1;
                    else W = finished - (idx == 0 ? 1 : 0);
                    //   x = J1^2 / 2^32;  y = (|W| * x) / 2^32;  zz = |W| - 1 - y
                    const uint64_t x = ((uint64_t) J1 * J1) >> 32;
                    const uint64_t yy = ((uint64_t) W * x) >> 32;
                    const uint64_t zz = (uint64_t) W - 1 - yy;
                    // W starts at column 0 in pass 0, and right after the current segment (cyclically) later on.
                    const uint32_t start = (r == 0) ? 0 : ((sl + 1) % SL) * seglen;
                    const uint32_t z = (uint32_t)((start + zz) % q);

                    // --- B[l][j] = G(B[l][j-1], B[ref_lane][z]), XORed over the old block from pass 1 on (v1.3) ---
                    Argon2Block nb = argon2_G(B(l, prev), B(ref_lane, z));
                    if (r > 0) for (int k = 0; k < 128; k++) nb.v[k] ^= B(l, j).v[k];
                    B(l, j) = nb;
                }
            }
        }
    }

    // Step 7: C = B[0][q-1] xor ... xor B[p-1][q-1];  Step 8: tag = H'^T(C)
    Argon2Block C = B(0, q - 1);
    for (uint32_t i = 1; i < p; i++) for (int k = 0; k < 128; k++) C.v[k] ^= B(i, q - 1).v[k];
    return blake2b_long(argon2_block_to_bytes(C), T);
}

// ---------------------------------------------------------------------------------------------------------
// PHC string format:  $argon2id$v=19$m=<dec>,t=<dec>,p=<dec>$<salt b64>$<hash b64>     (or $argon2i$...)
// ---------------------------------------------------------------------------------------------------------

// Standard base64 alphabet (RFC 4648 section 4) WITHOUT '=' padding (PHC string format, "B64").
inline std::string argon2_b64_encode(const Bytes &in) {
    static const char *A = "ABCDEFGHIJKLMNOPQRSTUVWXYZabcdefghijklmnopqrstuvwxyz0123456789+/";
    std::string out;
    uint32_t acc = 0;
    int bits = 0;
    for (uint8_t c : in) {
        acc = (acc << 8) | c;
        bits += 8;
        while (bits >= 6) { bits -= 6; out.push_back(A[(acc >> bits) & 63]); }
    }
    if (bits > 0) out.push_back(A[(acc << (6 - bits)) & 63]);   // remaining 2 or 4 bits, zero-filled
    return out;
}
// Strict decoder: only alphabet characters, length mod 4 != 1, unused trailing bits must be zero.
inline bool argon2_b64_decode(const std::string &s, Bytes &out) {
    out.clear();
    if (s.size() % 4 == 1) return false;
    uint32_t acc = 0;
    int bits = 0;
    for (char ch : s) {
        int d;
        if (ch >= 'A' && ch <= 'Z') d = ch - 'A';
        else if (ch >= 'a' && ch <= 'z') d = ch - 'a' + 26;
        else if (ch >= '0' && ch <= '9') d = ch - '0' + 52;
        else if (ch == '+') d = 62;
        else if (ch == '/') d = 63;
        else return false;
        acc = ((acc << 6) | (uint32_t) d) & 0xffffff;
        bits += 6;
        if (bits >= 8) { bits -= 8; out.push_back((uint8_t)(acc >> bits)); }
    }
    if (bits > 0 && (acc & ((1u << bits) - 1)) != 0) return false;
    return true;
}

inline std::string argon2_encode_string(int type, uint32_t m, uint32_t t, uint32_t p, const Bytes &salt, const Bytes &hash) {
    std::string s = (type == 1) ? "$argon2i" : "$argon2id";
    s += "$v=19";
    s += "$m=" + std::to_string(m) + ",t=" + std::to_string(t) + ",p=" + std::to_string(p);
    s += "$" + argon2_b64_encode(salt);
    s += "$" + argon2_b64_encode(hash);
    return s;
}

struct Argon2Str {
    bool ok = false;          // the string is well-formed (syntax only)
    int type = 0;             // 1 = argon2i, 2 = argon2id
    uint32_t version = 0;     // 19 (0x13); 16 (0x10) is reported when the field is absent and allow_missing_version is set
    uint32_t m = 0, t = 0, p = 0;
    Bytes salt, hash;
    bool params_ok = false;   // ok, and the values pass libsodium's argon2_validate_inputs() limits (see below)
};

// Strict parser. Rules and where each one comes from:
//  [PHC]  = PHC string format specification (github.com/P-H-C/phc-string-format) and RFC 9106's encoding of it
//  [LS]   = behaviour of libsodium's decoder, /repo/src/libsodium/crypto_pwhash/argon2/argon2-encoding.c
//  R1 [PHC,LS:163-169]  the string starts with "$argon2id" or "$argon2i" (lower case, exact), immediately followed by '$'.
//  R2 [LS:170-174]      "$v=<dec>" is MANDATORY in libsodium's decoder (CC("$v="), not the optional CC_opt of the
//                       reference implementation) and the value must be 19. [PHC] makes the version optional (the
//                       reference implementation then assumes 0x10). `allow_missing_version` = true selects the PHC
//                       behaviour: a missing field is accepted and reported as version 16; default false mirrors libsodium.
//  R3 [PHC,LS:175-189]  "$m=<dec>,t=<dec>,p=<dec>" in exactly this order, all three present, comma separated.
//                       (PHC allows parameters with defaults to be omitted in general, but Argon2 defines none as optional.)
//  R4 [PHC,LS:38-67]    decimals: one or more ASCII digits, no sign, no spaces, no leading zero except the single digit "0".
//  R5 [LS:130-138]      each decimal must fit in 32 bits (libsodium parses into unsigned long, then rejects > UINT32_MAX).
//  R6 [PHC,LS:141-153]  salt and hash are base64, standard alphabet, no '=' padding, no whitespace; length mod 4 != 1 and
//                       the unused low bits of the last character must be zero (sodium_base642bin(), sodium/codecs.c:311).
//  R7 [LS:192-195]      '$' separates parameters / salt / hash; both salt and hash are required by the grammar. An empty
//                       base64 field is syntactically accepted here (ok = true) and then fails the length limits (params_ok).
//  R8 [LS:200-203]      nothing may follow the hash.
//  Limits checked for params_ok (LS argon2-core.c:222-340 argon2_validate_inputs, called from the decoder at :196):
//      hash length >= 16, salt length >= 8, 1 <= p <= 0xFFFFFF, m >= 8, m >= 8*p, t >= 1.
//      (m <= ARGON2_MAX_MEMORY = 2^32-1 on 64-bit and t <= 2^32-1 are implied by R5.)
//  Not mirrored on purpose: libsodium's base64 character classifier is arithmetic and is fed a plain `char`; this
//  parser accepts exactly the 64 alphabet characters, so any other byte (including bytes >= 0x80) is a syntax error.
inline Argon2Str argon2_parse_string(const std::string &s, bool allow_missing_version = false) {
    Argon2Str r;
    size_t pos = 0;
    auto eat = [&](const char *lit) -> bool {
        size_t n = strlen(lit);
        if (s.compare(pos, n, lit) != 0) return false;
        pos += n;
        return true;
    };
    auto decimal = [&](uint32_t &v) -> bool {                           // R4, R5
        size_t start = pos;
        uint64_t acc = 0;
        while (pos < s.size() && s[pos] >= '0' && s[pos] <= '9') {
            acc = acc * 10 + (uint64_t)(s[pos] - '0');
            if (acc > 0xffffffffULL) return false;
            pos++;
        }
        if (pos == start) return false;                                  // no digit at all
        if (s[start] == '0' && pos - start > 1) return false;            // leading zero
        v = (uint32_t) acc;
        return true;
    };
    auto b64field = [&](Bytes &out) -> bool {                            // R6: runs up to the next '$' or the end
        size_t end = s.find('$', pos);
        if (end == std::string::npos) end = s.size();
        bool good = argon2_b64_decode(s.substr(pos, end - pos), out);
        pos = end;
        return good;
    };

    if (eat("$argon2id$")) r.type = 2;                                   // R1
    else if (eat("$argon2i$")) r.type = 1;
    else return r;
    if (eat("v=")) {                                                     // R2
        if (!decimal(r.version) || r.version != 19 || !eat("$")) return r;
    } else {
        if (!allow_missing_version) return r;
        r.version = 16;
    }
    if (!eat("m=") || !decimal(r.m)) return r;                           // R3
    if (!eat(",t=") || !decimal(r.t)) return r;
    if (!eat(",p=") || !decimal(r.p)) return r;
    if (!eat("$") || !b64field(r.salt)) return r;                        // R7
    if (!eat("$") || !b64field(r.hash)) return r;
    if (pos != s.size()) return r;                                       // R8
    r.ok = true;
    r.params_ok = r.hash.size() >= 16 && r.salt.size() >= 8 && r.p >= 1 && r.p <= 0xffffff && r.m >= 8 && (uint64_t) r.m >= 8ull * r.p && r.t >= 1;
    return r;
}

// crypto_pwhash(out, outlen, passwd, salt[16], opslimit, memlimit, alg) as libsodium defines it
// (/repo/src/libsodium/crypto_pwhash/argon2/pwhash_argon2id.c:166-171, pwhash_argon2i.c same shape):
//   t_cost = opslimit, m_cost = memlimit / 1024 KiB, lanes = threads = 1, no secret, no associated data,
//   alg 1 = Argon2i, alg 2 = Argon2id. (Range checks on outlen / opslimit / memlimit are the caller's business.)
inline Bytes pwhash_argon2(int alg, const Bytes &pwd, const Bytes &salt16, uint64_t opslimit, uint64_t memlimit, uint32_t outlen) {
    if (alg != 1 && alg != 2) return Bytes();
    if (opslimit > 0xffffffffULL || memlimit / 1024 > 0xffffffffULL) return Bytes();
    return argon2(alg, pwd, salt16, (uint32_t) opslimit, (uint32_t)(memlimit / 1024), 1, outlen);
}

// What crypto_pwhash_str_alg() would output for the given (normally random) 16-byte salt: 32-byte tag
// (STR_HASHBYTES, pwhash_argon2id.c:203-206), parameters encoded as m = memlimit/1024, t = opslimit, p = 1.
inline std::string pwhash_argon2_str(int alg, const Bytes &pwd, const Bytes &salt16, uint64_t opslimit, uint64_t memlimit) {
    Bytes tag = pwhash_argon2(alg, pwd, salt16, opslimit, memlimit, 32);
    if (tag.empty()) return std::string();
    return argon2_encode_string(alg, (uint32_t)(memlimit / 1024), (uint32_t) opslimit, 1, salt16, tag);
}

// Verification of a PHC string the way argon2_verify() does it (LS argon2.c:207-271): decode strictly, recompute with
// the decoded parameters (any p is honoured, all lanes computed), no secret / ad, compare to the decoded tag.
// `type` is the algorithm the caller expects (crypto_pwhash_str_verify dispatches on the prefix; the _argon2i_/_argon2id_
// variants insist on their own type). Returns false for malformed strings, out-of-range parameters, m above the
// oracle's own safety cap, or a tag mismatch.
inline bool argon2_verify_string(const std::string &s, const Bytes &pwd, int type = 0 /* 0 = whatever the prefix says */, bool allow_missing_version = false) {
    Argon2Str ps = argon2_parse_string(s, allow_missing_version);
    if (!ps.ok || !ps.params_ok || ps.version != 19) return false;
    if (type != 0 && ps.type != type) return false;
    Bytes tag = argon2(ps.type, pwd, ps.salt, ps.t, ps.m, ps.p, (uint32_t) ps.hash.size());
    return !tag.empty() && tag == ps.hash;
}

// ---------------------------------------------------------------------------------------------------------
// Self-test
// ---------------------------------------------------------------------------------------------------------
inline int selftest_argon2() {
    T t("argon2");
    char name[160];

    // RFC 9106 section 5.2 (Argon2i) and 5.3 (Argon2id): t=3, m=32 KiB, p=4, 32-byte tag
    {
        Bytes P(32, 0x01), S(16, 0x02), K(8, 0x03), X(12, 0x04);
        t.eqh("rfc9106 5.2 argon2i", argon2(1, P, S, 3, 32, 4, 32, K, X), "c814d9d1dc7f37aa13f0d77f2494bda1c8de6b016dd388d29952a4c4672b6ce8");
        t.eqh("rfc9106 5.3 argon2id", argon2(2, P, S, 3, 32, 4, 32, K, X), "0d640df58d78766c08c037a34a8b53c9d01ef0452d75b65eb52520e96b01e659");
        // RFC 9106 section 5.1 (Argon2d), same inputs -- exercises the data-dependent path in every slice
        t.eqh("rfc9106 5.1 argon2d", argon2(0, P, S, 3, 32, 4, 32, K, X), "512b391b6f1162975371d30919734294f868e3be3984f3c1a13a4db9fabe4acb");
    }

    // libsodium test vectors: /repo/test/default/pwhash_argon2i.c, pwhash_argon2id.c, function tv() / tv2() with the
    // outputs in the matching .exp files. crypto_pwhash() => lanes 1, salt = first 16 bytes of salt_hex,
    // m = memlimit / 1024. Entries that the tests expect to fail (outlen 5 < 16; opslimit 1 < 3 for Argon2i)
    // have no output line and are left out.
    {
        static const struct { int type; const char *pw_hex, *salt_hex; uint32_t outlen; uint64_t opslimit, memlimit; const char *out_hex; } tv[] = {
            { 1, "a347ae92bce9f80f6f595a4480fc9c2fe7e7d7148d371e9487d75f5c23008ffae065577a928febd9b1973a5a95073acdbeb6a030cfc0d79caa2dc5cd011cef02c08da232d76d52dfbca38ca8dcbd665b17d1665f7cf5fe59772ec909733b24de97d6f58d220b20c60d7c07ec1fd93c52c31020300c6c1facd77937a597c7a6",
              "5541fbc995d5c197ba290346d2c559de", 155, 5, 7256678,
              "23b803c84eaa25f4b44634cc1e5e37792c53fcd9b1eb20f865329c68e09cbfa9f1968757901b383fce221afe27713f97914a041395bbe1fb70e079e5bed2c7145b1f6154046f5958e9b1b29055454e264d1f2231c316f26be2e3738e83a80315e9a0951ce4b137b52e7d5ee7b37f7d936dcee51362bcf792595e3c896ad5042734fc90c92cae572ce63ff659a2f7974a3bd730d04d525d253ccc38" },
            { 1, "e125cee61c8cb7778d9e5ad0a6f5d978ce9f84de213a8556d9ffe202020ab4a6ed9074a4eb3416f9b168f137510f3a30b70b96cbfa219ff99f6c6eaffb15c06b60e00cc2890277f0fd3c622115772f7048adaebed86e",
              "f1192dd5dc2368b9cd421338b2243345", 250, 4, 7849083,
              "0bb3769b064b9c43a9460476ab38c4a9a2470d55d4c992c6e723af895e4c07c09af41f22f90eab583a0c362d177f4677f212482fd145bfb9ac6211635e48461122bb49097b5fb0739d2cd22a39bf03d268e7495d4fd8d710aa156202f0a06e932ff513e6e7c76a4e98b6df5cf922f124791b1076ad904e6897271f5d7d24c5929e2a3b836d0f2f2697c2d758ee79bf1264f3fae65f3744e0f6d7d07ef6e8b35b70c0f88e9036325bfb24ac7f550351486da87aef10d6b0cb77d1cf6e31cf98399c6f241c605c6530dffb4764784f6c0b0bf601d4e4431e8b18dabdc3079c6e264302ade79f61cbd5497c95486340bb891a737223100be0429650" },
            { 1, "92263cbf6ac376499f68a4289d3bb59e5a22335eba63a32e6410249155b956b6a3b48d4a44906b18b897127300b375b8f834f1ceffc70880a885f47c33876717e392be57f7da3ae58da4fd1f43daa7e44bb82d3717af4319349c24cd31e46d295856b0441b6b289992a11ced1cc3bf3011604590244a3eb737ff221129215e4e4347f4915d41292b5173d196eb9add693be5319fdadc242906178bb6c0286c9b6ca6012746711f58c8c392016b2fdfc09c64f0f6b6ab7b",
              "3b840e20e9555e9fb031c4ba1f1747ce", 249, 3, 7994791,
              "e9aa073b0b872f15c083d1d7ce52c09f493b827ca78f13a06c1721b45b1e17b24c04e19fe869333135360197a7eb55994fee3e8d9680aedfdf7674f3ad7b84d59d7eab03579ffc10c7093093bc48ec84252aa1b30f40f5e838f1443e15e2772a39f4e774eb052097e8881e94f15457b779fa2af2bbc9a993687657c7704ac8a37c25c1df4289eb4c70da45f2fd46bc0f78259767d3dd478a7c369cf866758bc36d9bd8e2e3c9fb0cf7fd6073ebf630c1f67fa7d303c07da40b36749d157ea37965fef810f2ea05ae6fc7d96a8f3470d73e15b22b42e8d6986dbfe5303256b2b3560372c4452ffb2a04fb7c6691489f70cb46831be0679117f7" },
            { 1, "4a857e2ee8aa9b6056f2424e84d24a72473378906ee04a46cb05311502d5250b82ad86b83c8f20a23dbb74f6da60b0b6ecffd67134d45946ac8ebfb3064294bc097d43ced68642bfb8bbbdd0f50b30118f5e",
              "39d82eef32010b8b79cc5ba88ed539fb", 190, 3, 1432947,
              "c121209f0ba70aed93d49200e5dc82cce013cef25ea31e160bf8db3cf448a59d1a56f6c19259e18ea020553cb75781761d112b2d949a297584c65e60df95ad89c4109825a3171dc6f20b1fd6b0cdfd194861bc2b414295bee5c6c52619e544abce7d520659c3d51de2c60e89948d830695ab38dcb75dd7ab06a4770dd4bc7c8f335519e04b038416b1a7dbd25c026786a8105c5ffe7a0931364f0376ae5772be39b51d91d3281464e0f3a128e7155a68e87cf79626ffca0b2a3022fc8420" },
            { 1, "c7b09aec680e7b42fedd7fc792e78b2f6c1bea8f4a884320b648f81e8cf515e8ba9dcfb11d43c4aae114c1734aa69ca82d44998365db9c93744fa28b63fd16000e8261cbbe083e7e2da1e5f696bde0834fe53146d7e0e35e7de9920d041f5a5621aabe02da3e2b09b405b77937efef3197bd5772e41fdb73fb5294478e45208063b5f58e089dbeb6d6342a909c1307b3fff5fe2cf4da56bdae50848f",
              "039c056d933b475032777edbaffac50f", 178, 3, 4886999,
              "91c337ce8918a5805a59b00bd1819d3eb4356807cbd2a80b271c4b482dce03f5b02ae4eb831ff668cbb327b93c300b41da4852e5547bea8342d518dd9311aaeb5f90eccf66d548f9275631f0b1fd4b299cec5d2e86a59e55dc7b3afab6204447b21d1ef1da824abaf31a25a0d6135c4fe81d34a06816c8a6eab19141f5687108500f3719a862af8c5fee36e130c69921e11ce83dfc72c5ec3b862c1bccc5fd63ad57f432fbcca6f9e18d5a59015950cdf053" },
            { 1, "a14975c26c088755a8b715ff2528d647cd343987fcf4aa25e7194a8417fb2b4b3f7268da9f3182b4cfb22d138b2749d673a47ecc7525dd15a0a3c66046971784bb63d7eae24cc84f2631712075a10e10a96b0e0ee67c43e01c423cb9c44e5371017e9c496956b632158da3fe12addecb88912e6759bc37f9af2f45af72c5cae3b179ffb676a697de6ebe45cd4c16d4a9d642d29ddc0186a0a48cb6cd62bfc3dd229d313b301560971e740e2cf1f99a9a090a5b283f35475057e96d7064e2e0fc81984591068d55a3b4169f22cccb0745a2689407ea1901a0a766eb99",
              "3d968b2752b8838431165059319f3ff8", 167, 3, 1784128,
              "e942951dfbc2d508294b10f9e97b47d0cd04e668a043cb95679cc1139df7c27cd54367688725be9d069f5704c12223e7e4ca181fbd0bed18bb4634795e545a6c04a7306933a41a794baedbb628d41bc285e0b9084055ae136f6b63624c874f5a1e1d8be7b0b7227a171d2d7ed578d88bfdcf18323198962d0dcad4126fd3f21adeb1e11d66252ea0c58c91696e91031bfdcc2a9dc0e028d17b9705ba2d7bcdcd1e3ba75b4b1fea" },
            { 1, "a347ae92bce9f80f6f595a4480fc9c2fe7e7d7148d371e9487d75f5c23008ffae065577a928febd9b1973a5a95073acdbeb6a030cfc0d79caa2dc5cd011cef02c08da232d76d52dfbca38ca8dcbd665b17d1665f7cf5fe59772ec909733b24de97d6f58d220b20c60d7c07ec1fd93c52c31020300c6c1facd77937a597c7a6",
              "5541fbc995d5c197ba290346d2c559de", 155, 4, 397645,
              "fd329873387429cb79faaec4f65c35649f65de0aabc1f092ca9dee20029d8ae6c3a97e9940763e1703a7fef5a20eb7f210123fc8c6d3f1745d19d5e3c1eb392ab4a6070c8a6b9ecbeabae0711326e81530099541a882d4bd7733c4a7477ae72b6928c46cd07264172a9d2cfb7d649594f877f8b447d9c01b17996b85db5a71f733f8cc5fd0436540a5b7a1d79de09e20c3abe6515501b3156cd51e" },
            { 1, "a347ae92bce9f80f6f595a4480fc9c2fe7e7d7148d371e9487d75f5c23008ffae065577a928febd9b1973a5a95073acdbeb6a030cfc0d79caa2dc5cd011cef02c08da232d76d52dfbca38ca8dcbd665b17d1665f7cf5fe59772ec909733b24de97d6f58d220b20c60d7c07ec1fd93c52c31020300c6c1facd77937a597c7a6",
              "5541fbc995d5c197ba290346d2c559de", 155, 3, 397645,
              "bbbc4c7963593601d4d685ed9d89682374f8e6b3ce92ce8ccc702728ec8bf839fd7cb8e37ddb09be8c18c7e0ed099949665227a00fb33e1f63ca830dbeb13b29d987b445b3e081cd8428bdb2f9e003e12bea98230fd30842fa193af9169171b550322072c88330ea464cbe02b6ee044374d3f3d174c23617b707159a11926c56601123dcc30508ec84fdb0797b7ab23a77eeefb2a0be2ef45e903c" },
            { 2, "a347ae92bce9f80f6f595a4480fc9c2fe7e7d7148d371e9487d75f5c23008ffae065577a928febd9b1973a5a95073acdbeb6a030cfc0d79caa2dc5cd011cef02c08da232d76d52dfbca38ca8dcbd665b17d1665f7cf5fe59772ec909733b24de97d6f58d220b20c60d7c07ec1fd93c52c31020300c6c1facd77937a597c7a6",
              "5541fbc995d5c197ba290346d2c559de", 155, 5, 7256678,
              "18acec5d6507739f203d1f5d9f1d862f7c2cdac4f19d2bdff64487e60d969e3ced615337b9eec6ac4461c6ca07f0939741e57c24d0005c7ea171a0ee1e7348249d135b38f222e4dad7b9a033ed83f5ca27277393e316582033c74affe2566a2bea47f91f0fd9fe49ece7e1f79f3ad6e9b23e0277c8ecc4b313225748dd2a80f5679534a0700e246a79a49b3f74eb89ec6205fe1eeb941c73b1fcf1" },
            { 2, "e125cee61c8cb7778d9e5ad0a6f5d978ce9f84de213a8556d9ffe202020ab4a6ed9074a4eb3416f9b168f137510f3a30b70b96cbfa219ff99f6c6eaffb15c06b60e00cc2890277f0fd3c622115772f7048adaebed86e",
              "f1192dd5dc2368b9cd421338b2243345", 250, 4, 7849083,
              "26bab5f101560e48c711da4f05e81f5a3802b7a93d5155b9cab153069cc42b8e9f910bfead747652a0708d70e4de0bada37218bd203a1201c36b42f9a269b675b1f30cfc36f35a3030e9c7f57dfba0d341a974c1886f708c3e8297efbfe411bb9d51375264bd7c70d57a8a56fc9de2c1c97c08776803ec2cd0140bba8e61dc0f4ad3d3d1a89b4b710af81bfe35a0eea193e18a6da0f5ec05542c9eefc4584458e1da715611ba09617384748bd43b9bf1f3a6df4ecd091d0875e08d6e2fd8a5c7ce08904b5160cd38167b76ec76ef2d310049055a564da23d4ebd2b87e421cc33c401e12d5cd8d936c9baf75ebdfb557d342d2858fc781da31860" },
            { 2, "92263cbf6ac376499f68a4289d3bb59e5a22335eba63a32e6410249155b956b6a3b48d4a44906b18b897127300b375b8f834f1ceffc70880a885f47c33876717e392be57f7da3ae58da4fd1f43daa7e44bb82d3717af4319349c24cd31e46d295856b0441b6b289992a11ced1cc3bf3011604590244a3eb737ff221129215e4e4347f4915d41292b5173d196eb9add693be5319fdadc242906178bb6c0286c9b6ca6012746711f58c8c392016b2fdfc09c64f0f6b6ab7b",
              "3b840e20e9555e9fb031c4ba1f1747ce", 249, 3, 7994791,
              "6eb45e668582d63788ca8f6e930ca60b045a795fca987344f9a7a135aa3b5132b50a34a3864c26581f1f56dd0bcbfafbfa92cd9bff6b24a734cfe88f854aef4bda0a7983120f44936e8ff31d29728ac08ccce6f3f916b3c63962755c23a1fa9bb4e8823fc867bfd18f28980d94bc5874423ab7f96cc0ab78d8fa21fbd00cd3a1d96a73fa439ccc3fc4eab1590677b06cc78b0f674dfb680f23022fb902022dd8620803229c6ddf79a8156ccfce48bbd76c05ab670634f206e5b2e896230baa74a856964dbd8511acb71d75a1506766a125d8ce037f1db72086ebc3bccaefbd8cd9380167c2530386544ebfbeadbe237784d102bb92a10fd242" },
            { 2, "4a857e2ee8aa9b6056f2424e84d24a72473378906ee04a46cb05311502d5250b82ad86b83c8f20a23dbb74f6da60b0b6ecffd67134d45946ac8ebfb3064294bc097d43ced68642bfb8bbbdd0f50b30118f5e",
              "39d82eef32010b8b79cc5ba88ed539fb", 190, 3, 1432947,
              "08d8cd330c57e1b4643241d05bb468ba4ee4e932cd0858816be9ef15360b27bbd06a87130ee92222be267a29b81f5ae8fe8613324cfc4832dc49387fd0602f1c57b4d0f3855db94fb7e12eb05f9a484aed4a4307abf586cd3d55c809bc081541e00b682772fb2066504ff935b8ebc551a2083882f874bc0fae68e56848ae34c91097c3bf0cca8e75c0797eef3efde3f75e005815018db3cf7c109a812264c4de69dcb22322dbbcfa447f5b00ecd1b04a7be1569c8e556adb7bba48adf81d" },
            { 2, "c7b09aec680e7b42fedd7fc792e78b2f6c1bea8f4a884320b648f81e8cf515e8ba9dcfb11d43c4aae114c1734aa69ca82d44998365db9c93744fa28b63fd16000e8261cbbe083e7e2da1e5f696bde0834fe53146d7e0e35e7de9920d041f5a5621aabe02da3e2b09b405b77937efef3197bd5772e41fdb73fb5294478e45208063b5f58e089dbeb6d6342a909c1307b3fff5fe2cf4da56bdae50848f",
              "039c056d933b475032777edbaffac50f", 178, 3, 4886999,
              "d6e9d6cabd42fb9ba7162fe9b8e41d59d3c7034756cb460c9affe393308bd0225ce0371f2e6c3ca32aca2002bf2d3909c6b6e7dfc4a00e850ff4f570f8f749d4bb6f0091e554be67a9095ae1eefaa1a933316cbec3c2fd4a14a5b6941bda9b7eabd821d79abde2475a53af1a8571c7ee46460be415882e0b393f48c12f740a6a72cba9773000602e13b40d3dfa6ac1d4ec43a838b7e3e165fecad4b2498389e60a3ff9f0f8f4b9fca1126e64f49501e38690" },
            { 2, "b540beb016a5366524d4605156493f9874514a5aa58818cd0c6dfffaa9e90205f17b",
              "44071f6d181561670bda728d43fb79b4", 231, 1, 1631659,
              "7fb72409b0987f8190c3729710e98c3f80c5a8727d425fdcde7f3644d467fe973f5b5fee683bd3fce812cb9ae5e9921a2d06c2f1905e4e839692f2b934b682f11a2fe2b90482ea5dd234863516dba6f52dc0702d324ec77d860c2e181f84472bd7104fedce071ffa93c5309494ad51623d214447a7b2b1462dc7d5d55a1f6fd5b54ce024118d86f0c6489d16545aaa87b6689dad9f2fb47fda9894f8e12b87d978b483ccd4cc5fd9595cdc7a818452f915ce2f7df95ec12b1c72e3788d473441d884f9748eb14703c21b45d82fd667b85f5b2d98c13303b3fe76285531a826b6fc0fe8e3dddecf" },
            { 2, "a14975c26c088755a8b715ff2528d647cd343987fcf4aa25e7194a8417fb2b4b3f7268da9f3182b4cfb22d138b2749d673a47ecc7525dd15a0a3c66046971784bb63d7eae24cc84f2631712075a10e10a96b0e0ee67c43e01c423cb9c44e5371017e9c496956b632158da3fe12addecb88912e6759bc37f9af2f45af72c5cae3b179ffb676a697de6ebe45cd4c16d4a9d642d29ddc0186a0a48cb6cd62bfc3dd229d313b301560971e740e2cf1f99a9a090a5b283f35475057e96d7064e2e0fc81984591068d55a3b4169f22cccb0745a2689407ea1901a0a766eb99",
              "3d968b2752b8838431165059319f3ff8", 167, 3, 1784128,
              "4e702bc5f891df884c6ddaa243aa846ce3c087fe930fef0f36b3c2be34164ccc295db509254743f18f947159c813bcd5dd8d94a3aec93bbe57605d1fad1aef1112687c3d4ef1cb329d21f1632f626818d766915d886e8d819e4b0b9c9307f4b6afc081e13b0cf31db382ff1bf05a16aac7af696336d75e99f82163e0f371e1d25c4add808e215697ad3f779a51a462f8bf52610af21fc69dba6b072606f2dabca7d4ae1d91d919" },
            { 2, "a347ae92bce9f80f6f595a4480fc9c2fe7e7d7148d371e9487d75f5c23008ffae065577a928febd9b1973a5a95073acdbeb6a030cfc0d79caa2dc5cd011cef02c08da232d76d52dfbca38ca8dcbd665b17d1665f7cf5fe59772ec909733b24de97d6f58d220b20c60d7c07ec1fd93c52c31020300c6c1facd77937a597c7a6",
              "5541fbc995d5c197ba290346d2c559de", 155, 4, 397645,
              "20e7ba6faa2c0a4b07f3ff38e15e252a069c2c62bac3f2785d311764d73e67fd713be342ee938e6df4de6af1a89a44b8589838864457bcfe3cf0f2d329b800ab9f5810b6325588eb4e0c56f99192b2cc76dc8194dc1097fe5ed12ac4214481c03c3597131ba164a56e7187e2da565a8cd529668e9a37faa58a1701c49a14edf7a50dec4143b456cba6d14c957bb655e99ce96bc506961216ef887a" },
            { 2, "a347ae92bce9f80f6f595a4480fc9c2fe7e7d7148d371e9487d75f5c23008ffae065577a928febd9b1973a5a95073acdbeb6a030cfc0d79caa2dc5cd011cef02c08da232d76d52dfbca38ca8dcbd665b17d1665f7cf5fe59772ec909733b24de97d6f58d220b20c60d7c07ec1fd93c52c31020300c6c1facd77937a597c7a6",
              "5541fbc995d5c197ba290346d2c559de", 155, 3, 397645,
              "8fb6ed1862cdd2a399e10956c60dc9b2670338ea59c3414d0443216925ba24c6e89a17f3e56c12893dcbc9bc498e8308aea9627d9c9e47912d6342b631008719edfa2db364b97e60cf47a97ad9aa3b7f139d80ddda44f1ef2af881ce027a15644218cac6cc74751469ae56be0469fbc760825882b3e8abca55daaae5753575106cf867cd69932602c63ec880ad8811d9aa4870a9e0b39fef47c92e" },
        };
        for (size_t k = 0; k < sizeof tv / sizeof tv[0]; k++) {
            snprintf(name, sizeof name, "libsodium tv type=%d ops=%llu mem=%llu outlen=%u", tv[k].type, (unsigned long long) tv[k].opslimit, (unsigned long long) tv[k].memlimit, tv[k].outlen);
            t.eqh(name, pwhash_argon2(tv[k].type, from_hex(tv[k].pw_hex), from_hex(tv[k].salt_hex), tv[k].opslimit, tv[k].memlimit, tv[k].outlen), tv[k].out_hex);
        }
    }

    // libsodium string vectors (tv3() and str_tests() of the same test files; expected results from the .exp files
    // and the test source). These also exercise p > 1 with the single-threaded lane loop.
    {
        static const struct { const char *pw; const char *s; bool want; } sv[] = {
            // pwhash_argon2id.c str_tests(): valid(7) / invalid(7)
            { "password", "$argon2id$v=19$m=256,t=3,p=1$MDEyMzQ1Njc$G5ajKFCoUzaXRLdz7UJb5wGkb2Xt+X5/GQjUYtS2+TE", true },
            { "passwore", "$argon2id$v=19$m=256,t=3,p=1$MDEyMzQ1Njc$G5ajKFCoUzaXRLdz7UJb5wGkb2Xt+X5/GQjUYtS2+TE", false },
            // invalid(8): wrong case in the prefix; invalid(9): p changed
            { "password", "$Argon2id$v=19$m=256,t=3,p=1$MDEyMzQ1Njc$G5ajKFCoUzaXRLdz7UJb5wGkb2Xt+X5/GQjUYtS2+TE", false },
            { "password", "$argon2id$v=19$m=256,t=3,p=2$MDEyMzQ1Njc$G5ajKFCoUzaXRLdz7UJb5wGkb2Xt+X5/GQjUYtS2+TE", false },
            // pwhash_argon2id.c tv3(): [0], [3] have t=0 (must fail), [5] has p=3 (must verify); [1] is an argon2i tag
            // under an argon2id prefix (must fail), [2] m=4882,t=2 verifies.
            { "", "$argon2id$v=19$m=4096,t=0,p=1$X1NhbHQAAAAAAAAAAAAAAA$bWh++MKN1OiFHKgIWTLvIi1iHicmHH7+Fv3K88ifFfI", false },
            { "", "$argon2id$v=19$m=2048,t=4,p=1$SWkxaUhpY21ISDcrRnYzSw$Mbg/Eck1kpZir5T9io7C64cpffdTBaORgyriLQFgQj8", false },
            { "", "$argon2id$v=19$m=4882,t=2,p=1$bA81arsiXysd3WbTRzmEOw$Nm8QBM+7RH1DXo9rvp5cwKEOOOfD2g6JuxlXihoNcpE", true },
            { "K3S=KyH#)36_?]LxeR8QNKw6X=gFbxai$C%29V*", "$argon2id$v=19$m=4096,t=1,p=3$PkEgcHJldHR5IGxvbmcgc2FsdA$HUqx5Z1b/ZypnUrvvJ5UC2Q+T6Q1WwASK/Kr9dRbGA0", true },
            // pwhash_argon2i.c tv3(): all four verify (the third one has p=2)
            { "", "$argon2i$v=19$m=4096,t=1,p=1$X1NhbHQAAAAAAAAAAAAAAA$bWh++MKN1OiFHKgIWTLvIi1iHicmHH7+Fv3K88ifFfI", true },
            { "", "$argon2i$v=19$m=2048,t=4,p=1$SWkxaUhpY21ISDcrRnYzSw$Mbg/Eck1kpZir5T9io7C64cpffdTBaORgyriLQFgQj8", true },
            { "^T5H$JYt39n%K*j:W]!1s?vg!:jGi]Ax?..l7[p0v:1jHTpla9;]bUN;?bWyCbtqg ", "$argon2i$v=19$m=4096,t=3,p=2$X1NhbHQAAAAAAAAAAAAAAA$z/QMiU4lQxGsYNc/+K/bizwsA1P11UG2dj/7+aILJ4I", true },
            { "K3S=KyH#)36_?]LxeR8QNKw6X=gFbxai$C%29V*", "$argon2i$v=19$m=4096,t=3,p=1$X1NhbHQAAAAAAAAAAAAAAA$fu2Wsecyt+yPnBvSvYN16oP5ozRmkp0ixJ1YL19V3Uo", true },
            // str_tests() invalid(1)..(6): missing '$' separators, missing version
            { "password", "$argon2id$m=65536,t=2,p=1c29tZXNhbHQ$9sTbSlTio3Biev89thdrlKKiCaYsjjYVJxGAL3swxpQ", false },
            { "password", "$argon2id$m=65536,t=2,p=1$c29tZXNhbHQ9sTbSlTio3Biev89thdrlKKiCaYsjjYVJxGAL3swxpQ", false },
            { "password", "$argon2id$v=19$m=65536,t=2,p=1c29tZXNhbHQ$wWKIMhR9lyDFvRz9YTZweHKfbftvj+qf+YFY4NeBbtA", false },
            { "password", "$argon2id$v=19$m=65536,t=2,p=1$c29tZXNhbHQwWKIMhR9lyDFvRz9YTZweHKfbftvj+qf+YFY4NeBbtA", false },
        };
        for (size_t k = 0; k < sizeof sv / sizeof sv[0]; k++) {
            snprintf(name, sizeof name, "libsodium string vector #%zu", k);
            t.ok(name, argon2_verify_string(sv[k].s, str(sv[k].pw)) == sv[k].want);
        }
        // type pinning, as crypto_pwhash_argon2i_str_verify() does
        t.ok("argon2id string under argon2i verify", !argon2_verify_string(sv[0].s, str("password"), 1));
        t.ok("argon2id string under argon2id verify", argon2_verify_string(sv[0].s, str("password"), 2));
    }

    // Development-time KATs generated with the system libargon2 (Debian libargon2-1 0~20171227-0.3, the PHC
    // reference implementation) through python3 ctypes: argon2_hash(t, m, p, pwd, salt, hash, hashlen, NULL, 0, type, 0x13)
    // with pwd = pat(pwdlen, 5), salt = pat(16, 6), pat(n, seed) = pwhash_kat_pattern(n, seed) of blake2b.hpp.
    // Columns: type, m (KiB), t, p, pwdlen, outlen, tag.
    {
        static const struct { int type; uint32_t m, t, p; int pwdlen; uint32_t outlen; const char *hex; } kat[] = {
            { 1,    8, 1, 1,   0,   16, "90d4c5b71737ec44a0aa1f361b0a2c69" },
            { 2,    8, 1, 1,   0,   32, "4d8fcd19fd6e39623d54cbfbf5cac6fb18c8e9e5ffb98ef2056172d6880a2e71" },
            { 1,    8, 2, 1,   1,   63, "72ee0f034d56cc00b33698033b37284124008938bec7b9e8507606b6a2a8edcf9778c4efe3fdf9249abc6bbaba2cbc010b8fa9bccb03b625c6702759bce24e" },
            { 2,    8, 2, 1,   1,   64, "ff07e9ed877ff035c165d65f9d2ec1ac1023f0a452294261a66584747a3bad9b24d847dc36cc96c75f33359e9c3d3c69e431ccea893e41ee8ac74a3e5583e0af" },
            { 1,    8, 3, 1,   8,   65, "b190d5a5c022eecba843c02af367cc3c6f85b0c431f611c733dcc257557e70db71fa68748b64d7f4089f416150ca70a78269ff51622875cd0467d45b94045bea42" },
            { 2,    8, 3, 1,   8,  128, "e0bdfebad58d0f84103f83e53caa0b202a689899b255d732eb1670b9500c0400e17def557dc8999591a5dd35ddcb57bee1a817b8f47758d48c42162eb991ac99476b8afb85e9210a462c4306c5b4433b9a8f396d7ca1ab7a94f19691e140712a829aa285628860dd6c559e98cf9cfd93f29a1e6778ee50966fe63bb2465190a8" },
            { 1,    8, 4, 1,  32,   16, "16dbd23f4985391d15e1ed5e63d294c7" },
            { 2,    8, 4, 1,  32,   32, "bb8e381b9b01f4ae85d4bb7a46e7c8a7db7f9d176e7dce471b6577d9ca5c9cab" },
            { 1,    9, 1, 1, 127,   63, "afda498af47d6739a6fa5abcaa7ed06786d2dcdd9df5fc5490a724edeeb562f252c0933f979f343b5fcb079784e3fe629a58dca2714e5cf86a099389336b24" },
            { 2,    9, 1, 1, 127,   64, "f68322d5275246fe4e92a3844d65f0af8bbdd21294b57284df8e3aa36ed48b338e6a81555348e2022a88321e8f709377064b387771e5fad7e7afc1784506faa9" },
            { 1,    9, 2, 1, 200,   65, "481141415e17414e08b1eb6e6d95077895b21edb6239c3b860263d45a5afd5dfb479b7a825403f0c2daf270e506b269cc90e4c8bf5cb95dd2370a28473da1a35a6" },
            { 2,    9, 2, 1, 200,  128, "9d4fc0625ae83ded389418fbd6e1bd341e297394b85314620848069fb8cbfdf07033181940154c4d69e17890637b9765d809bb14c2cd21bf78ccd4e223eefb2ba19970adae1da3c9ed70052c25b5fefd9f44fbe4a000945baba543f1939eb62d0d3beca9ab81290cefc53bb6a25beed526e98e63bf613f134f1d0bff67d65c29" },
            { 1,    9, 3, 1,   0,   16, "315939dd56e8b458a80fed82a7fd9359" },
            { 2,    9, 3, 1,   0,   32, "31c9301d046374faf528e964c6bb2675026239cc64f3489b4bd3665b0f3c0852" },
            { 1,    9, 4, 1,   1,   63, "12fc6a76b9b697c60d15e2fa0656fbfb667f3e09613c7c63098b155fbc788ab9fdd63eb760b51220a536c5ac95cceedf4bc474da74db2c1e3839d633a55d80" },
            { 2,    9, 4, 1,   1,   64, "e67a7218ce8dea30fb2225c268735bd9569109541b032e9f9e4694dc7a9ac6e2b46282415908acb37d6226cce68c3f1209642be406c442c21e1edb79f54aa005" },
            { 1,   11, 1, 1,   8,   65, "d1d9380ec58da792575baa20fe61310ab66f9f7a0aa6b7bc2a7cff863e79893f8801f3a47c603ac15d9bb2f631d57121597550ee21d2daabec159441aa58c3c49b" },
            { 2,   11, 1, 1,   8,  128, "3a4b5dde4bb5bc29d4db8a20905c22ce1ac13bd27609ecbb0a335e097ea97b727e4aff1fe85bfd92f57b033d958cdc38e2e2a357ed4173cd1733755f914b9a3291f66b14e0fa0dd9707fa081b861ad0105ca086fd17610dd4904c78b65b74a541404f053f6da439f4760267c20f19d9b4b717c43060f8c6283177e84eb05c345" },
            { 1,   11, 2, 1,  32,   16, "d2a7934a5610d1e37e3cca37868397da" },
            { 2,   11, 2, 1,  32,   32, "925244ebb35dd442c0f6d1e6e6f8469d887a415c535bba621b74600e4b6d8d07" },
            { 1,   11, 3, 1, 127,   63, "7a4a0b0076e071601e2f12d357cfb8cb510bc6e12885b74b2403fab4b229b9650cb47b6764023a62c47b533c16a9f304edc635d8038caae3846a87786b44e4" },
            { 2,   11, 3, 1, 127,   64, "dd3ec7d3b6d62f4b032a252a6b2b6962fe96ac6551e621585cf60048f60260e5dc9e88e91651d280e7a25ebe385f3526a87c1bd94d78e84a9c0e83b18cce6318" },
            { 1,   11, 4, 1, 200,   65, "78854fd237d534511d5e7faa2d008c34ad554f2cfedad0628b93fe61ac0f1dbde95e3934a07bd489e391aac35f319b61187b6e705b0974c7d94e96b6198e30eb2e" },
            { 2,   11, 4, 1, 200,  128, "89ee5eb68775cdfc17f12e293b5e04180af1cf9d9bb7f46a8a86be0f7156a4a11f0c692ef3732c45a1d00dfbab66d0b38697596fd55f1593591d182b1960a727fbd623129cebb13f7ebd56b9ce3d406287a12bc2014db073cc0f334ae2ba4ec300fdfc1ff6563d15121cafc4b8455ba965c09118ea4f26f35da13cfb0b2b8aa9" },
            { 1,   12, 1, 1,   0,   16, "ceb5af29081fcaae14159062d37476d2" },
            { 2,   12, 1, 1,   0,   32, "f76c9d05670d41744b5c724993d74cd16d3cc910ff68611cf5b850a87c0f44c1" },
            { 1,   12, 2, 1,   1,   63, "e573c69bf5c5cf260f389c59480ce7e8ff977a6e24c8f4a5809dc4ec3fc764f505d9aa81e31cd0f17b9a15f5b909cd9c0c98b3848aed7359a5b69373a81167" },
            { 2,   12, 2, 1,   1,   64, "c9a21fe0d57405614049aa2b2076af7948dc569f3938d83d88082b1a08a4f5bf448f435815cfc15f5609ed6db4202cc6683f29ea247528cb95d46c1603a55d19" },
            { 1,   12, 3, 1,   8,   65, "dbab49136b4623cdf52a7be11bef7e3e0bb3046ee69bf8cf758c97a827b942df1aca9f814c68ee9ae694ebbdd342b91f5bdf6b193a18ce205d9b41c08657fc3926" },
            { 2,   12, 3, 1,   8,  128, "88aa04b6626d089be7fbbd4de87629e430873f09c1c781d2b24706e4ee5dc1e845476555a79eaec03547f1a108f96f6e6a6dbad9753ce51b9466c35ea7aef62044dbc9de07bdd7939cd2275ed74e668316bd80df8f18f6938247d45751db53027391004dae325e55046d6d5eee43d5466fe575f463b956031c86f3a8a37aa1f4" },
            { 1,   12, 4, 1,  32,   16, "abc56349b698378c8751279d5227e2f1" },
            { 2,   12, 4, 1,  32,   32, "f7e71d5388a6e154c9ef6cee1485f6404da4144034fd578000adbbffda42562f" },
            { 1,   13, 1, 1, 127,   63, "de78f5ad7cb601592c4e7f5802c7775516160a313283d5d373de78d60d21ef963535c010c1fa6f956d68328783775b62bf1eec9d2b33bd1bd865c99a3273fa" },
            { 2,   13, 1, 1, 127,   64, "7af4b6a5d3db207e8e00ad97f31a44c27ffcb79a83e006e6b5238d0a56f949429872657d1417f4b04b9476688bb99a022f67b0a838170d61929d52fa7333efea" },
            { 1,   13, 2, 1, 200,   65, "cb11d957e46efa8fdb24fdb17e7adc11c3a55ef62cc35c8d1cc3cd02ac5f8f938c95f116df0d8a81db57cffb3dbc36b4a3532b1f3ccde9590d0f674c5570b129db" },
            { 2,   13, 2, 1, 200,  128, "aff34e4d4b334328f2cd820a344838ccecddc0d222ca5b42cc03f30975b1b2dab12e9fca8554efcf487f4562109dc4aefd1216941e311a4a8d713378737ce54d945b0487237c99989cc2d6a69292e2a2ef4bb493131efc16879f886e3b360903c9056dd9ba6057e436eb46242eff52cc83884cfb9453f0e54806b53fd79b504a" },
            { 1,   13, 3, 1,   0,   16, "83000f754b3efb4e98a655883283bfee" },
            { 2,   13, 3, 1,   0,   32, "301c82236d77ca9a97d2021ad81098b3f2611a586fd9a5d997076411f1846b2c" },
            { 1,   13, 4, 1,   1,   63, "a4582e33155507b9c5f63bdcecb43d466e028be9d4d36c0dcc1e5dcee74d4b784da7806a66493078a36867788c91aa9601002d9eb0711ca9d918bfab8de10b" },
            { 2,   13, 4, 1,   1,   64, "6b1a7f61671af4b9ec2b7090631f51aeed131b9ba3bf6219da97319bdfc5204794630311707137591a36cb9b994c84ac9b2ebf8c459323d43508b3ec8f964258" },
            { 1,   16, 1, 1,   8,   65, "4929b435d7abb64a8ca9e59677734c773bec6264aa9152478bf8d57ba14d0e394c9a01c3bba3d522a362cc72849df4e5daf81175329cf5bdbe1b4d3be43c58da9a" },
            { 2,   16, 1, 1,   8,  128, "1433e73844683311add5367710f51d16af11245c0c29446dcd2c04bdd45873e6784f6806762e2aa9a7da71e126f961715aac6ea5109907410a1ad2a6527507f488125b9068acedd5e9d743b78a733da6fe0f2735ca495688c0da25e2cd5baf383ff0fa9145df7083bfb5ceecf0d95c5fbdb068d941c68d1443d1c3622d93b1b5" },
            { 1,   16, 2, 1,  32,   16, "c6d827de65e14450b4f91376fa277c7f" },
            { 2,   16, 2, 1,  32,   32, "f9174e4eb0cf66cbeb9a9af7316ecde23745b48e652dd8e3ca7cdd9273a4bfff" },
            { 1,   16, 3, 1, 127,   63, "0b833e3889d43b6d1d7bc613ebafbd38fc55185bd036635af29ec81dc0ef41cdb4fa546a812aee467010da1ec46a7638ded05332040adef5d6d55b5516f32c" },
            { 2,   16, 3, 1, 127,   64, "2a7a298b55e22f7cf2ca18e0e2271dfb28516323800e0149ce36414835b0ff2d009f268609cf55daa7d63501b6719ff93ea2b201bb643eb8f55383fe13105711" },
            { 1,   16, 4, 1, 200,   65, "97433b45fd8b9a13b2fe1431c6aad125f55f7f7404e8a359c73739a62a09ea16cd3651de000859f76682e435e25a55400debedad9b239bbd3906296bd3eab0b1a4" },
            { 2,   16, 4, 1, 200,  128, "8c0e70c8769a74a86afeb4635eb751dfea97a842d395d91a859d39201817f204215206cbf05e421ffe39827a858bb2500f672887bda5a162e9c485a4e3b11b18af0bf5c8be0755e00a288553ac6d73d5143da98dfa5bd684f5c69fb5987c3851e9595be25541125636e0e9f76f5641c86e059734dca0b9210b9568fa2ad5648a" },
            { 1,   31, 1, 1,   0,   16, "ee1fe557babd8709b537a0e361211c58" },
            { 2,   31, 1, 1,   0,   32, "fab8c62aa4337b8cb28493efee4303dee2a13eb90a587890536461ed430e3174" },
            { 1,   31, 2, 1,   1,   63, "da99267ffce80b6def7f3801ffac7c5bfb193ff3f2127aabe2f7acf67c5e4e5394e7cf654f8f056a668f92207eb292e9fa6c424ff985521b3bab2d7b08da7c" },
            { 2,   31, 2, 1,   1,   64, "6a755ef828cbd8204ae80367c90b0a032d92ff9dd6bef4c8095ec221d5a5e7e02902393f94c12e30034455b36aa5a09a981b77602aa6ff7fb8dac02eb39cf4c8" },
            { 1,   31, 3, 1,   8,   65, "c2d9131faa4d47c7d39b337d7a1144544a361f0bfd9d8da078e2029d7a8ac64a09874fc714d15f288e3a1c0f9a6f5be004530d53bfe72b7802845b56d2e8202465" },
            { 2,   31, 3, 1,   8,  128, "d0ddbd219183636d0337fef7ea3fb8e0f4877ca305ea0d08d6335148402f48b36757ce677d53bcc1ecce2ee98cdbc8a3770b7f9c39d26b7a04cc799bfdda3591c8069865d8e4871d1990ab40a85a05bf37a827be9b77e6a2b940ed3701880ec8b29567837861ae2610c7c94e5a6c226e5850aea1c0ed02abf4b8a8edaa0c4845" },
            { 1,   31, 4, 1,  32,   16, "341abc29a3ea01279b72c3c52f7745bb" },
            { 2,   31, 4, 1,  32,   32, "c8d6fb80dd6a7dc0a6cd3655b1bd8ae0e8d64530911127c194d185278da092bd" },
            { 1,   32, 1, 1, 127,   63, "0cac8756b5c0134c0b4a1b265ed75ab72bb7070d55cee2ba4f5c957e8521a897fb13c25b44207c7eb53a33030612bf388c4bd76c20a7b6166d2a0d6ca77d5f" },
            { 2,   32, 1, 1, 127,   64, "f2d5e6993383fda9e44d72da48679da00acb628414242fe029f7a43c6d6433681660cc89baca4b0ed78220898e088bcdff058fb63ade64fac32e7439ae21de5c" },
            { 1,   32, 2, 1, 200,   65, "04541f501038fb67f4142e0158ce9cd1b6ebcbcd01abb3e8a93e25904fc94dc3e63ceb6258f5227ad1a805bb504828fe7befe99b43f9d5ba99c42ef88915fd5f2d" },
            { 2,   32, 2, 1, 200,  128, "501327466193b5469b6068429a302a8f5f5bf6049fb2bf9617d4a908f2d72ec93353489c6602b91dd57834206bcd1196628614637ce6250bee286494819f7ba502ec124c1014804d3102ef647c31c30caa7852ff67343c666ac2c1399be927f166185f7f8740c7aa4f980fb82914489a935f94997e3fb4f900d484bac6f84397" },
            { 1,   32, 3, 1,   0,   16, "2e58370d5d8a05ef6b32431d4f5706c6" },
            { 2,   32, 3, 1,   0,   32, "718107110170537be17214310c3f4c414fdfae9b54b77802c2888534c1a980f7" },
            { 1,   32, 4, 1,   1,   63, "8bfd89dfa6c97e4c201a1bbdb6af27eae07179e5ce3ad69dd0e5b6a22bdf24a149232590ad138c117f03d973e69e8428a24e0f505e54ba003fb38f9403444b" },
            { 2,   32, 4, 1,   1,   64, "47f3bb21cf5367beec087572315b5f105b73c9450509e25b1eaeb2e750a3c1ab97a4efe38592709b8df7d462d30aca12533ff0d581d2e0a02f8f58477ecc09da" },
            { 1,   64, 1, 1,   8,   65, "d1bc29cb7f68a4a54f918598fbfdfff42de95852ff5fdfce70acad7420cbd0fe2868a57dd167961ac33272bfe8ab82767644176ad228d80c91e6a50f372dcfe813" },
            { 2,   64, 1, 1,   8,  128, "0dc17f0304f24a5bb9c9190fe1c4db588b07422e1f28364b193c59b26ebcd677c1fb29d839bdd3a3b06d9ed7e9ce3ca246929b1442364ed6efa1bc1ce8ea00394fe7dece0d236789d1156d51574938d6b6a67bb1d8a7ac3bb1321e3b2916fb27fdc0b66b673f6d53f88668e5d596a0eff00e9df64da670f00a0d3f22223e7a15" },
            { 1,   64, 2, 1,  32,   16, "f1858ca4b6e3800a6981860142e177b9" },
            { 2,   64, 2, 1,  32,   32, "489d8d3271e9d14dee2fa30ba48bf7edbc86f1048357b9c3c712443d372d1cdc" },
            { 1,   64, 3, 1, 127,   63, "78ba80c728a13199137cb588aec8b34207680ecca34e4e7a63d2a589f25aa6b0a36dc49c5d9a70822a8463b567f2bc40443bbd805d9884e8696d22592dd8f8" },
            { 2,   64, 3, 1, 127,   64, "018a831d73dee950e2f193e29a329ddbfd31edeac2f90cd5dfbaa1039ebbd441afcfb6b415c0573f4c39c2ac0d45f303f74cfa65030e87d564f405276680d89c" },
            { 1,   64, 4, 1, 200,   65, "6d5f6a94257db10b494de4954b4b428058c245e4fab884b8be69d491e13466cae37985f786aa99f2f02a4667d0a9552655d0a6717baf4d3c6eebe773d5ba139a95" },
            { 2,   64, 4, 1, 200,  128, "c6ef86014c7b184a45861cb45109feda717f62993fe010dfbfecae013d9d64baf0e20ce5b502b3b7cd2f06ad4e3577778fef7db9aa2c751ab55e4282c6b7c291c8e90fa3396de95fd41b0482708bfba8f187bda9fa44e0dd0ce0b4876d6bd24472ed2d1cf8403e2a73511db0bf55aca7caa7356fa5201e842c478728e182c1d4" },
            { 1,  100, 1, 1,   0,   16, "d915385d9e1fa38b21a632799fc7f463" },
            { 2,  100, 1, 1,   0,   32, "d3694079375762b14415bcd1fc2614001b47910ff41760e48508ddcc773fd9e4" },
            { 1,  100, 2, 1,   1,   63, "a4d5da3bd37195981f0526e37c25ed3ec724bca8ec891eac8c62b24fa30045feb43dcdf101dd9e5b7ea21621775ba3321a3f4a5b332fb6b6354d2a08fb4047" },
            { 2,  100, 2, 1,   1,   64, "03f62e6ad31977b0ab9b90fac0267e08b5aff19be89782ff30bddb302a0dfab5e5790c69953cdf6453408fba2ae1c02ca0c5f9467b856a2e9c291fba14ea588a" },
            { 1,  100, 3, 1,   8,   65, "5f1941777abd269ce807bc5f47e198a98a37031450dd449f54279b85b923dee4f34045f830ce90bdc28035144a52b83f8fae7be8b0cb054237ef6279271199c1df" },
            { 2,  100, 3, 1,   8,  128, "b0c68674adc1102b755f6ed04e4684cc420ebbeaa8ece433e92e9ef4f5faaa3417bbfe05ad0a9d522d05f8527a1932a61ac8fee53def7fdc218ae07fd5adc65a33ccbe55de775660718a714fe3ab16056eef4ed347aa09b50f5026e555305d02116b3a6ef3371bda2eb880b20efc9aef61bdb5c392559865754d94e367959789" },
            { 1,  100, 4, 1,  32,   16, "4c83b9cd1713632cfd2b50bd874a66f4" },
            { 2,  100, 4, 1,  32,   32, "4768b857966355e3131f277089f1620090cede8928467333b9e92b6b2258fc30" },
            { 1,   16, 1, 2,   8,   63, "1cfd76c6d60f9716b6cca9d7efa1c8fd472544d2f2b4de40b000f44761330df49b250bb8c917c456bbba2990878cb4be58734be390455be9a031890be2203b" },
            { 2,   16, 1, 2,  32,   64, "2b640c93028c30190bfcf0632d5732b5e3ea18a1aa5ef5a310e9a5dec66a013314acc4cf7e28856ef272c0a52b270d3799089ec8ce7424a3c3d38782f05cc216" },
            { 1,   17, 2, 2, 127,   65, "ac3504f5930841ddca5e0927d48f8b36ccde4cfcebdc286d7cc4956d75626bec006e37a5101d96cf0abfbe2da6883b60635cdbab410febe64acbee8648c7e09c96" },
            { 2,   17, 2, 2, 200,  128, "a76359d715b7d7ce27804d246abd1f659185b5e5f9e2abc853e3aaac54a2bd134b0b0f96605799eb1bc6c2a19ef456483a4c8a16d0b867da08be8dd831bee6cf45e13be4310811b11c1337ef97e4485c8b5a38ba1c2657f2d013d643a5c223e2bfa2c4bf5f1e9abc000a2f73fce72808a822a6776d6a13b7af182d3279920dd0" },
            { 1,   24, 3, 3,   0,   16, "f8687125af97ccdcd9e14afe3dbdb8cf" },
            { 2,   24, 3, 3,   1,   32, "e854a0ba1bc1dbffd61f0a0ea32e5a0725489b861e9ee8aff3499a8f5ce3c019" },
            { 1,   31, 1, 3,   8,   63, "7561e2ab519036dbcaf5bcad16026be9cf074ba7cbe001a51429292f8b532659102d3e5cbd1fefa79ecfb42f7d80f4795a22f77f32d71c8b5389df7ccd09d9" },
            { 2,   31, 1, 3,  32,   64, "992353756b862c3791e18874712681cf6a78432bfcad6f39a7962e8d5df59ae03e8d19f1b092fefdbd2a1ceca35cefa795928b5ae2e5e8092d74e49f2baec07a" },
            { 1,   32, 2, 4, 127,   65, "be23f7a42aad6d3b2d67609990dac2683d30b3cc6486596219fb83fc7bc246560c3aeedcd4699ef4efe2c5284e1bae9d79cde3e335d60d9904145177a45a3a1518" },
            { 2,   32, 2, 4, 200,  128, "ff974c8916d8c485d2ebf637ef19a3589d3a1d3dc1e80b0e5f1f177a6e4b82e059ac6d9169b6b7c09ae822e98138d9b5921f8f75faf968f9e2a9fc7263207d94d06000090cb615fb7e2a7f44b79f5bc818c44ed2ea01fff50364e367759b5b73d1f40c79c7ff9f8ce74acaeea61473bf781dd5752faad859b5114a95f9dd6659" },
            { 1,   33, 3, 4,   0,   16, "25ae6b55711a25fed1a8fed5631da66d" },
            { 2,   33, 3, 4,   1,   32, "0b6d11e53eab2036928fd4219c40151a0edf7f03b3aaa970cdf80909825e017b" },
            { 1,   64, 4, 2,   8,   63, "46c1398a07e44103065d7489d8414a33e487fb927790665b6d122983ab37606a909765ba2ce5e56a3851e0d9af5f66932051bfc3600fcf99225e1482ecc1fd" },
            { 2,   64, 4, 2,  32,   64, "3f11b8e1c814f01586d6cec8f1814852053be0074e1cd14acc53fb643f005ba318d858f42bd3678a5c5bcdcc19451cf786a7ff80ee4bcf427873de241c67b773" },
            { 1,  100, 2, 3, 127,   65, "16d5cc873b6a7fb31b9e6394ce520573d0229d99b1b9651c62263c04b57c2972d98b3ad2e9f206bb0856a31c41b241fe7e6e745e2bbb5e4ac1c2a73a8bdd631c22" },
            { 2,  100, 2, 3, 200,  128, "dd723296e0b88131af5e23c7a9cdd1341b4885c11a6a898e98cc8065565db3a2b2c88275344cd6e92b19cdbada59825c7599e07b20e88b8d3ce6ead69af03e8d383de699644c1bc4fa4142b0094752c5467c5f4ee2921652f75e7c655f9979f0be58799f2b955bf8bcbd7c66a1d2713cc2aaa732f7f0b63dbc733d5ad737a9f9" },
            { 1,  100, 1, 4,   0,   16, "6fca76dc3eb8f1b50a25165698071a77" },
            { 2,  100, 1, 4,   1,   32, "66323212360079535ac864a9442a0c38aa352d586ea00ad22956962080034514" },
            { 1,   40, 3, 4,   8,   63, "108c1bd2f75df53c36a171ef6011fc11f34d04503d492908eca617504b40b77def3712a89e164f3a382f179b1a40f38f1c2ca1c46d29d10f40629ae8b06720" },
            { 2,   40, 3, 4,  32,   64, "1e0bedb73e00cd5d13ee6b2fc8e88204fc89c7def2b64696dc97fcbc3ce18c71630e68604ccadc04fbff92a2ea86390a958f3d6151fc8974f007ece1df3ba6c0" },
            { 1,  600, 1, 1,  16,   32, "ad119dddcaf3b0d44046c30e04488a2a79c7fe8c285da53df3d1a997f6a7fe40" },
            { 2,  600, 1, 1,  16,   32, "c8e648099245c332f761e6ff0c95a8b1c1053c55e927bd94b3af15eea76688e0" },
            { 1, 1025, 2, 1,  16,   32, "8dca0563cfcb12a6146373ff4f6656452a2f2c43129868536f670ee8bd0291ef" },
            { 2, 1025, 2, 1,  16,   32, "9a03315d5a32cb9cc99a92e13130d8c58e81736d59b165585ac60a2864b9eae7" },
            { 1, 1100, 2, 2,  16,   32, "ef6b5c7e1354c9d640c2e5806bcd5707114504ff5a34691706427164cd6e8310" },
            { 2, 1100, 2, 2,  16,   32, "6a0851a5836941683d866a227c3490f868683d6fc9e5bed36c1cb929c1e71443" },
            { 2,    8, 1, 1,   0,    4, "41fd30a0" },
            { 1,    8, 1, 1,   0,    4, "e6061d1e" },
            { 2,   64, 3, 1,  16, 1024, "8fe35bb00d32005ecefbd52b57055f8f4c33066aa318a25cef9891c63ed0964dcac8a95006ad8da2802066516dfce1b487967ec41c6da747a741d05e4c7cec33f3490e75a12c6a829fe8a7cc2d33568893985bbe4503991b2b839c2067997651098cdcee87d1a3275a90540a7aacd541c496d6763bca3b1b28671ce367b599b660f60b4af002f561ca86f38523059dcf8a5d7507912d7122025bcf9c891638109e1fd6af6ac8be12a22b29de1e32ec688b3bf0aa82c4920baf3ac7f9bf27f195205be35d8e24a2b4af8318dc651f63596b022c723467e64fb2c3dd67cc0e153060309cb68d1c5ed4b74c6119667cf57c92717e6b1f13308366d16ef609659eaee5fffc88aaf478f4b2767dd4fe1f138e213871a07cd815634056f6d2a7f3b0062c866829519ff30ccfe8d8eecacfcbdf6773d120b3ac68bc549ddd98694faad00c88dc178ac7532eb7cd553b0baf7d8ecea6f1c0853bed9da3e41e6e1b431e92b10ab84240c2559c49a691efb961ca27e1ab756046d1ec5a9c0af78d20772244c035dd18ea5708a5dbe3e417e7cfb2d596e6f3be0abe991787b5650fc8d27d5f82aef5e5b1bf6cfd83618c929b84f2ae13011e8dc6e91215d5777febb374f15b5748bf6295f81b72eef06b7f155b696533882841d2b08f901508c78a254b9806e8c2815ab8482c83c68a7f8d944d9807b2cf1b7d59a0f8bd69a3ecb90c33220dff1b445f0c0beb80fbaef9e2cfaca981a7edf420b5672c8cc71d234dc44b0797a49ca013984116e4fef503c27d6458cded2ecf21ca7efd85ecbe90517749d2ac71065964106ce0ac9576afb3cd1cfe579d926b921f8a447c8455ae52b9a1b602141ace68c550a16db07342a3e4bc0262480130eace30494ea53d2deb2f988d4bbad44b4782c9dc10aa2230277a221a3f2d76965808d834fffeec07605521a56e10486f2ae0cce34211aa0912658d2ea10248e12da9e59ac5d25231f2bef7e26d0a8397708d1e846b251eede57c3c19575a2bb485267f06e8c5e0bd7fc18a456a905a0a8009998f44a6be6adbfdf304ea7f7769db68c91b13f38940c3e7e9f468cd26626b8a82a8138f9d072d665dbbfae334b6eb88ac1bfb4057a191608bb1a777e1d9fad6971d44bff98bee2a5951a28311f2136b27e6038277fa0228811d1cbc0b1dc57640b4cf4b49f5b864401c11bc910d762d68f5f7e327807c1fb617d0821e4baff0100773e2cf567484c5d0f7466d12476d35542161f488ed7549f90e02d1de3767d69430f0f0a6e47f7fbf6d40bbd064564bc5e38cb5b9b281ccb48bb088552b831e4f319de17a17b509ebb9638fa1cbf2d337b1b0afe4c5ad1fdd1b5aa93c7b0562310f9826d93543c4ec418069e094f635449737f8ce196f366a6ba408a3271b55e4a58c6da9b89f1161ffa143d4c08b2999332f77147fe2507158" },
            { 0,   64, 2, 2,  16,   32, "378a3d39d89c2d4f1f02ca30fc9568599d2c09631280fa81345854472961f0c1" },
        };
        for (size_t k = 0; k < sizeof kat / sizeof kat[0]; k++) {
            snprintf(name, sizeof name, "libargon2 kat type=%d m=%u t=%u p=%u pwdlen=%d outlen=%u", kat[k].type, kat[k].m, kat[k].t, kat[k].p, kat[k].pwdlen, kat[k].outlen);
            t.eqh(name, argon2(kat[k].type, pwhash_kat_pattern((size_t) kat[k].pwdlen, 5), pwhash_kat_pattern(16, 6), kat[k].t, kat[k].m, kat[k].p, kat[k].outlen), kat[k].hex);
        }
    }

    // String encoder / parser
    {
        Bytes salt = str("0123456789abcdef"), hash = pwhash_kat_pattern(32, 7);
        std::string s = argon2_encode_string(2, 65536, 2, 1, salt, hash);
        t.ok("encode prefix", s.rfind("$argon2id$v=19$m=65536,t=2,p=1$MDEyMzQ1Njc4OWFiY2RlZg$", 0) == 0);
        Argon2Str ps = argon2_parse_string(s);
        t.ok("roundtrip", ps.ok && ps.params_ok && ps.type == 2 && ps.version == 19 && ps.m == 65536 && ps.t == 2 && ps.p == 1 && ps.salt == salt && ps.hash == hash);
        std::string si = argon2_encode_string(1, 8, 4294967295u, 1, salt, hash);
        ps = argon2_parse_string(si);
        t.ok("roundtrip argon2i / u32 max", ps.ok && ps.type == 1 && ps.t == 4294967295u && ps.m == 8);
        // what libsodium itself produced in the test suite is accepted
        t.ok("libsodium sample accepted", argon2_parse_string("$argon2id$v=19$m=256,t=3,p=1$MDEyMzQ1Njc$G5ajKFCoUzaXRLdz7UJb5wGkb2Xt+X5/GQjUYtS2+TE").ok);
        std::string h43 = "G5ajKFCoUzaXRLdz7UJb5wGkb2Xt+X5/GQjUYtS2+TE";
        static const struct { const char *what; std::string s; bool ok; } cases[] = {
            { "missing version (libsodium: mandatory)", "$argon2id$m=256,t=3,p=1$MDEyMzQ1Njc$" + h43, false },
            { "version 16", "$argon2id$v=16$m=256,t=3,p=1$MDEyMzQ1Njc$" + h43, false },
            { "version leading zero", "$argon2id$v=019$m=256,t=3,p=1$MDEyMzQ1Njc$" + h43, false },
            { "upper-case prefix", "$ARGON2ID$v=19$m=256,t=3,p=1$MDEyMzQ1Njc$" + h43, false },
            { "argon2d", "$argon2d$v=19$m=256,t=3,p=1$MDEyMzQ1Njc$" + h43, false },
            { "no leading $", "argon2id$v=19$m=256,t=3,p=1$MDEyMzQ1Njc$" + h43, false },
            { "m leading zero", "$argon2id$v=19$m=0256,t=3,p=1$MDEyMzQ1Njc$" + h43, false },
            { "m plus sign", "$argon2id$v=19$m=+256,t=3,p=1$MDEyMzQ1Njc$" + h43, false },
            { "m space", "$argon2id$v=19$m= 256,t=3,p=1$MDEyMzQ1Njc$" + h43, false },
            { "m empty", "$argon2id$v=19$m=,t=3,p=1$MDEyMzQ1Njc$" + h43, false },
            { "m = 2^32", "$argon2id$v=19$m=4294967296,t=3,p=1$MDEyMzQ1Njc$" + h43, false },
            { "m huge", "$argon2id$v=19$m=99999999999999999999999999,t=3,p=1$MDEyMzQ1Njc$" + h43, false },
            { "t = 0 is a valid decimal", "$argon2id$v=19$m=256,t=0,p=1$MDEyMzQ1Njc$" + h43, true },
            { "order t,m,p", "$argon2id$v=19$t=3,m=256,p=1$MDEyMzQ1Njc$" + h43, false },
            { "p missing", "$argon2id$v=19$m=256,t=3$MDEyMzQ1Njc$" + h43, false },
            { "extra parameter", "$argon2id$v=19$m=256,t=3,p=1,x=1$MDEyMzQ1Njc$" + h43, false },
            { "keyid/data extension", "$argon2id$v=19$m=256,t=3,p=1,keyid=AA$MDEyMzQ1Njc$" + h43, false },
            { "salt padded", "$argon2id$v=19$m=256,t=3,p=1$MDEyMzQ1Njc=$" + h43, false },
            { "hash padded", "$argon2id$v=19$m=256,t=3,p=1$MDEyMzQ1Njc$" + h43 + "=", false },
            { "url-safe alphabet", "$argon2id$v=19$m=256,t=3,p=1$MDEyMzQ1Njc$G5ajKFCoUzaXRLdz7UJb5wGkb2Xt-X5_GQjUYtS2-TE", false },
            { "trailing bits non-zero", "$argon2id$v=19$m=256,t=3,p=1$MDEyMzQ1Njc$G5ajKFCoUzaXRLdz7UJb5wGkb2Xt+X5/GQjUYtS2+TF", false },
            { "salt length 1 mod 4", "$argon2id$v=19$m=256,t=3,p=1$MDEyMzQ1NjcAA$" + h43, false },
            { "trailing garbage", "$argon2id$v=19$m=256,t=3,p=1$MDEyMzQ1Njc$" + h43 + "$", false },
            { "trailing newline", "$argon2id$v=19$m=256,t=3,p=1$MDEyMzQ1Njc$" + h43 + "\n", false },
            { "hash missing", "$argon2id$v=19$m=256,t=3,p=1$MDEyMzQ1Njc", false },
            { "high byte in hash", "$argon2id$v=19$m=256,t=3,p=1$MDEyMzQ1Njc$G5ajKFCoUzaXRLdz7UJb5wGkb2Xt+X5/GQjUYtS2+T\xc5", false },
            { "empty string", "", false },
        };
        for (const auto &c : cases) { snprintf(name, sizeof name, "parse: %s", c.what); t.ok(name, argon2_parse_string(c.s).ok == c.ok); }
        // syntactically fine but outside libsodium's limits
        t.ok("t=0 -> params_ok false", !argon2_parse_string("$argon2id$v=19$m=256,t=0,p=1$MDEyMzQ1Njc$" + h43).params_ok);
        t.ok("m<8p -> params_ok false", !argon2_parse_string("$argon2id$v=19$m=15,t=1,p=2$MDEyMzQ1Njc$" + h43).params_ok);
        t.ok("salt 7 bytes -> params_ok false", !argon2_parse_string("$argon2id$v=19$m=256,t=3,p=1$MDEyMzQ1Ng$" + h43).params_ok);
        t.ok("hash 15 bytes -> params_ok false", !argon2_parse_string("$argon2id$v=19$m=256,t=3,p=1$MDEyMzQ1Njc$MDEyMzQ1Njc4OWFiY2Rl").params_ok);
        t.ok("empty salt: ok but not params_ok", argon2_parse_string("$argon2id$v=19$m=256,t=3,p=1$$" + h43).ok && !argon2_parse_string("$argon2id$v=19$m=256,t=3,p=1$$" + h43).params_ok);
        // PHC behaviour on request
        ps = argon2_parse_string("$argon2id$m=256,t=3,p=1$MDEyMzQ1Njc$" + h43, true);
        t.ok("allow_missing_version", ps.ok && ps.version == 16);
        t.ok("missing version never verifies as v1.3", !argon2_verify_string("$argon2id$m=256,t=3,p=1$MDEyMzQ1Njc$" + h43, str("password"), 0, true));
        // pwhash_argon2_str: format as crypto_pwhash_str() emits it, and it verifies
        std::string ph = pwhash_argon2_str(2, str("pw"), salt, 1, 8192);
        t.ok("pwhash_argon2_str prefix", ph.rfind("$argon2id$v=19$m=8,t=1,p=1$MDEyMzQ1Njc4OWFiY2RlZg$", 0) == 0 && ph.size() == 50 + 43);
        t.ok("pwhash_argon2_str verifies", argon2_verify_string(ph, str("pw")) && !argon2_verify_string(ph, str("pW")));
    }

    // invalid parameters never abort
    t.ok("m < 8p rejected", argon2(2, Bytes(), Bytes(16, 0), 1, 7, 1, 32).empty());
    t.ok("t = 0 rejected", argon2(2, Bytes(), Bytes(16, 0), 0, 8, 1, 32).empty());
    t.ok("lanes = 0 rejected", argon2(2, Bytes(), Bytes(16, 0), 1, 8, 0, 32).empty());
    t.ok("m above cap rejected", argon2(2, Bytes(), Bytes(16, 0), 1, 0xffffffffu, 1, 32).empty());
    t.ok("type 3 rejected", argon2(3, Bytes(), Bytes(16, 0), 1, 8, 1, 32).empty());
    return t.fails;
}

}  // namespace ref
