// ref/stream.hpp -- ChaCha20 (original 64/64 layout, IETF 32/96 layout, RFC 8439), HChaCha20, XChaCha20
// (draft-irtf-cfrg-xchacha), Salsa20/20/12/8 (Bernstein's specification), HSalsa20, XSalsa20.
// One block at a time; the block counter is an integer, so any offset can be evaluated directly.
#pragma once
#include "common.hpp"

namespace ref {

static const uint8_t SIGMA[16] = { 'e', 'x', 'p', 'a', 'n', 'd', ' ', '3', '2', '-', 'b', 'y', 't', 'e', ' ', 'k' };

// ------------------------------------------------------------------ ChaCha
inline void chacha_qr(uint32_t *x, int a, int b, int c, int d) {
    x[a] += x[b]; x[d] ^= x[a]; x[d] = rotl32(x[d], 16);
    x[c] += x[d]; x[b] ^= x[c]; x[b] = rotl32(x[b], 12);
    x[a] += x[b]; x[d] ^= x[a]; x[d] = rotl32(x[d], 8);
    x[c] += x[d]; x[b] ^= x[c]; x[b] = rotl32(x[b], 7);
}
inline void chacha_rounds(uint32_t x[16]) {
    for (int i = 0; i < 10; i++) {
        chacha_qr(x, 0, 4, 8, 12); chacha_qr(x, 1, 5, 9, 13); chacha_qr(x, 2, 6, 10, 14); chacha_qr(x, 3, 7, 11, 15);
        chacha_qr(x, 0, 5, 10, 15); chacha_qr(x, 1, 6, 11, 12); chacha_qr(x, 2, 7, 8, 13); chacha_qr(x, 3, 4, 9, 14);
    }
}
// state words 12..15 given explicitly
inline void chacha_block_words(const uint8_t key[32], const uint32_t w12_15[4], uint8_t out[64]) {
    uint32_t s[16], x[16];
    for (int i = 0; i < 4; i++) s[i] = ld32le(SIGMA + 4 * i);
    for (int i = 0; i < 8; i++) s[4 + i] = ld32le(key + 4 * i);
    for (int i = 0; i < 4; i++) s[12 + i] = w12_15[i];
    memcpy(x, s, sizeof x);
    chacha_rounds(x);
    for (int i = 0; i < 16; i++) st32le(out + 4 * i, x[i] + s[i]);
}
// original ChaCha20: 64-bit block counter (words 12,13), 64-bit nonce (words 14,15)
inline void chacha20_block(const uint8_t key[32], const uint8_t nonce[8], uint64_t counter, uint8_t out[64]) {
    uint32_t w[4] = { (uint32_t) counter, (uint32_t)(counter >> 32), ld32le(nonce), ld32le(nonce + 4) };
    chacha_block_words(key, w, out);
}
// IETF ChaCha20: 32-bit block counter (word 12), 96-bit nonce (words 13..15)
inline void chacha20_ietf_block(const uint8_t key[32], const uint8_t nonce[12], uint32_t counter, uint8_t out[64]) {
    uint32_t w[4] = { counter, ld32le(nonce), ld32le(nonce + 4), ld32le(nonce + 8) };
    chacha_block_words(key, w, out);
}
// keystream of `len` bytes starting at block `ic`; the 64-bit counter wraps modulo 2^64
inline Bytes chacha20_stream(const Bytes &key, const Bytes &nonce8, uint64_t ic, size_t len) {
    Bytes out(len); uint8_t blk[64];
    for (size_t off = 0; off < len; off += 64, ic++) {
        chacha20_block(key.data(), nonce8.data(), ic, blk);
        memcpy(&out[off], blk, std::min<size_t>(64, len - off));
    }
    return out;
}
// caller guarantees ic + ceil(len/64) <= 2^32
inline Bytes chacha20_ietf_stream(const Bytes &key, const Bytes &nonce12, uint32_t ic, size_t len) {
    Bytes out(len); uint8_t blk[64];
    for (size_t off = 0; off < len; off += 64, ic++) {
        chacha20_ietf_block(key.data(), nonce12.data(), ic, blk);
        memcpy(&out[off], blk, std::min<size_t>(64, len - off));
    }
    return out;
}
// HChaCha20: constant defaults to sigma; output = words 0..3 and 12..15 of the permuted state (no feed-forward)
inline Bytes hchacha20(const Bytes &key, const Bytes &in16, const Bytes &constant16 = Bytes()) {
    uint32_t x[16];
    const uint8_t *c = constant16.empty() ? SIGMA : constant16.data();
    for (int i = 0; i < 4; i++) x[i] = ld32le(c + 4 * i);
    for (int i = 0; i < 8; i++) x[4 + i] = ld32le(&key[4 * i]);
    for (int i = 0; i < 4; i++) x[12 + i] = ld32le(&in16[4 * i]);
    chacha_rounds(x);
    Bytes out(32);
    for (int i = 0; i < 4; i++) { st32le(&out[4 * i], x[i]); st32le(&out[16 + 4 * i], x[12 + i]); }
    return out;
}
// XChaCha20 as in libsodium: subkey = HChaCha20(key, nonce[0..16)), then ORIGINAL ChaCha20 with nonce[16..24) and 64-bit counter
inline Bytes xchacha20_stream(const Bytes &key, const Bytes &nonce24, uint64_t ic, size_t len) {
    Bytes sk = hchacha20(key, sub(nonce24, 0, 16));
    return chacha20_stream(sk, sub(nonce24, 16, 8), ic, len);
}

// ------------------------------------------------------------------ Salsa
inline void salsa_rounds(uint32_t x[16], int rounds) {
    for (int i = 0; i < rounds; i += 2) {
        // column round
        x[4] ^= rotl32(x[0] + x[12], 7);   x[8] ^= rotl32(x[4] + x[0], 9);   x[12] ^= rotl32(x[8] + x[4], 13);   x[0] ^= rotl32(x[12] + x[8], 18);
        x[9] ^= rotl32(x[5] + x[1], 7);    x[13] ^= rotl32(x[9] + x[5], 9);  x[1] ^= rotl32(x[13] + x[9], 13);   x[5] ^= rotl32(x[1] + x[13], 18);
        x[14] ^= rotl32(x[10] + x[6], 7);  x[2] ^= rotl32(x[14] + x[10], 9); x[6] ^= rotl32(x[2] + x[14], 13);   x[10] ^= rotl32(x[6] + x[2], 18);
        x[3] ^= rotl32(x[15] + x[11], 7);  x[7] ^= rotl32(x[3] + x[15], 9);  x[11] ^= rotl32(x[7] + x[3], 13);   x[15] ^= rotl32(x[11] + x[7], 18);
        // row round
        x[1] ^= rotl32(x[0] + x[3], 7);    x[2] ^= rotl32(x[1] + x[0], 9);   x[3] ^= rotl32(x[2] + x[1], 13);    x[0] ^= rotl32(x[3] + x[2], 18);
        x[6] ^= rotl32(x[5] + x[4], 7);    x[7] ^= rotl32(x[6] + x[5], 9);   x[4] ^= rotl32(x[7] + x[6], 13);    x[5] ^= rotl32(x[4] + x[7], 18);
        x[11] ^= rotl32(x[10] + x[9], 7);  x[8] ^= rotl32(x[11] + x[10], 9); x[9] ^= rotl32(x[8] + x[11], 13);   x[10] ^= rotl32(x[9] + x[8], 18);
        x[12] ^= rotl32(x[15] + x[14], 7); x[13] ^= rotl32(x[12] + x[15], 9); x[14] ^= rotl32(x[13] + x[12], 13); x[15] ^= rotl32(x[14] + x[13], 18);
    }
}
// Salsa20 expansion: words 0,5,10,15 constant; 1..4 and 11..14 key; 6..9 input (nonce, counter)
inline void salsa_load(uint32_t s[16], const uint8_t in[16], const uint8_t key[32], const uint8_t *c) {
    s[0] = ld32le(c); s[5] = ld32le(c + 4); s[10] = ld32le(c + 8); s[15] = ld32le(c + 12);
    for (int i = 0; i < 4; i++) { s[1 + i] = ld32le(key + 4 * i); s[11 + i] = ld32le(key + 16 + 4 * i); s[6 + i] = ld32le(in + 4 * i); }
}
// crypto_core_salsa20*: 64-byte output = permuted state + input state
inline Bytes salsa_core(const Bytes &in16, const Bytes &key32, const Bytes &constant16, int rounds) {
    uint32_t s[16], x[16];
    salsa_load(s, in16.data(), key32.data(), constant16.empty() ? SIGMA : constant16.data());
    memcpy(x, s, sizeof x);
    salsa_rounds(x, rounds);
    Bytes out(64);
    for (int i = 0; i < 16; i++) st32le(&out[4 * i], x[i] + s[i]);
    return out;
}
inline Bytes hsalsa20(const Bytes &in16, const Bytes &key32, const Bytes &constant16 = Bytes()) {
    uint32_t x[16];
    salsa_load(x, in16.data(), key32.data(), constant16.empty() ? SIGMA : constant16.data());
    salsa_rounds(x, 20);
    Bytes out(32);
    static const int idx[8] = { 0, 5, 10, 15, 6, 7, 8, 9 };
    for (int i = 0; i < 8; i++) st32le(&out[4 * i], x[idx[i]]);
    return out;
}
inline Bytes salsa_stream(const Bytes &key, const Bytes &nonce8, uint64_t ic, size_t len, int rounds) {
    Bytes out(len), in(16);
    memcpy(&in[0], nonce8.data(), 8);
    for (size_t off = 0; off < len; off += 64, ic++) {
        st64le(&in[8], ic);
        Bytes blk = salsa_core(in, key, Bytes(), rounds);
        memcpy(&out[off], blk.data(), std::min<size_t>(64, len - off));
    }
    return out;
}
inline Bytes xsalsa20_stream(const Bytes &key, const Bytes &nonce24, uint64_t ic, size_t len) {
    Bytes sk = hsalsa20(sub(nonce24, 0, 16), key);
    return salsa_stream(sk, sub(nonce24, 16, 8), ic, len, 20);
}
inline Bytes xor_bytes(const Bytes &a, const Bytes &b) { Bytes r(a.size()); for (size_t i = 0; i < a.size(); i++) r[i] = a[i] ^ b[i]; return r; }

inline int selftest_stream() {
    T t("stream");
    // RFC 8439 2.3.2 block function
    {
        Bytes key = from_hex("000102030405060708090a0b0c0d0e0f101112131415161718191a1b1c1d1e1f");
        Bytes nonce = from_hex("000000090000004a00000000");
        uint8_t blk[64]; chacha20_ietf_block(key.data(), nonce.data(), 1, blk);
        t.eqh("rfc8439 2.3.2", Bytes(blk, blk + 64),
              "10f1e7e4d13b5915500fdd1fa32071c4c7d1f4c733c068030422aa9ac3d46c4ed2826446079faa0914c2d705d98b02a2b5129cd1de164eb9cbd083e8a2503c4e");
        // RFC 8439 2.4.2 encryption
        Bytes n2 = from_hex("000000000000004a00000000");
        Bytes pt = str("Ladies and Gentlemen of the class of '99: If I could offer you only one tip for the future, sunscreen would be it.");
        Bytes ct = xor_bytes(pt, chacha20_ietf_stream(key, n2, 1, pt.size()));
        t.eqh("rfc8439 2.4.2", ct,
              "6e2e359a2568f98041ba0728dd0d6981e97e7aec1d4360c20a27afccfd9fae0bf91b65c5524733ab8f593dabcd62b3571639d624e65152ab8f530c359f0861d807ca0dbf500d6a6156a38e088a22b65e52bc514d16ccf806818ce91ab77937365af90bbf74a35be6b40b8eedf2785e42874d");
    }
    // original ChaCha20, all-zero key/nonce (Bernstein / draft-agl TC1)
    t.eqh("chacha20 tc1", chacha20_stream(Bytes(32, 0), Bytes(8, 0), 0, 64),
          "76b8e0ada0f13d90405d6ae55386bd28bdd219b8a08ded1aa836efcc8b770dc7da41597c5157488d7724e03fb8d84a376a43b8f41518a11cc387b669b2ee6586");
    // draft-irtf-cfrg-xchacha 2.2.1 HChaCha20
    t.eqh("hchacha20", hchacha20(from_hex("000102030405060708090a0b0c0d0e0f101112131415161718191a1b1c1d1e1f"), from_hex("000000090000004a0000000031415927")),
          "82413b4227b27bfed30e42508a877d73a0f9e4d58a74a853c12ec41326d3ecdc");
    // Salsa20 core (spec section 8, first example uses the raw permutation; here the "expand 32-byte k" example of section 9)
    {
        Bytes k(32); for (int i = 0; i < 16; i++) { k[i] = (uint8_t)(1 + i); k[16 + i] = (uint8_t)(201 + i); }
        Bytes n(16); for (int i = 0; i < 16; i++) n[i] = (uint8_t)(101 + i);
        Bytes o = salsa_core(n, k, Bytes(), 20);
        const uint8_t want[64] = { 69, 37, 68, 39, 41, 15, 107, 193, 255, 139, 122, 6, 170, 233, 217, 98, 89, 144, 182, 106, 21, 51, 200, 65, 239, 49, 222, 34, 215, 114, 40, 126,
                                   104, 197, 7, 225, 197, 153, 31, 2, 102, 78, 76, 176, 84, 245, 246, 184, 177, 160, 133, 130, 6, 72, 149, 119, 192, 195, 132, 236, 234, 103, 246, 74 };
        t.eq("salsa20 spec sec 9", o, Bytes(want, want + 64));
    }
    // XSalsa20 (NaCl stream3 test): first 32 bytes of the secretbox stream
    {
        Bytes k = from_hex("1b27556473e985d462cd51197a9a46c76009549eac6474f206c4ee0844f68389");
        Bytes n = from_hex("69696ee955b62b73cd62bda875fc73d68219e0036b7a0b37");
        t.eqh("xsalsa20 stream3", sub(xsalsa20_stream(k, n, 0, 32), 0, 32), "eea6a7251c1e72916d11c2cb214d3c252539121d8e234e652d651fa4c8cff880");
        // HSalsa20 (NaCl core1/core2): shared -> firstkey; firstkey+nonceprefix -> secondkey
        Bytes shared = from_hex("4a5d9d5ba4ce2de1728e3bf480350f25e07e21c947d19e3376f09b3c1e161742");
        t.eqh("hsalsa20 core1", hsalsa20(Bytes(16, 0), shared), "1b27556473e985d462cd51197a9a46c76009549eac6474f206c4ee0844f68389");
        t.eqh("hsalsa20 core2", hsalsa20(sub(n, 0, 16), k), "dc908dda0b9344a953629b733820778880f3ceb421bb61b91cbd4c3e66256ce4");
    }
    return t.fails;
}

}  // namespace ref
