// ref/h2c.hpp -- hashing to edwards25519 and ristretto255, from RFC 9380.
//   expand_message_xmd                       section 5.3.1 (+ 5.3.3 for an over-long DST)
//   hash_to_field (p = 2^255-19, m = 1, L = 48)   section 5.2, parameters from section 8.5
//   Elligator 2 on curve25519 (Z = 2)        section 6.7.1
//   rational map curve25519 -> edwards25519  section 6.8.2 / appendix D.1
//   clear_cofactor (h = 8), hash_to_curve, encode_to_curve     sections 7, 3
//   ristretto255 hash                         appendix B
#pragma once
#include "ed25519.hpp"
#include "ristretto255.hpp"

namespace ref {

// ---------------------------------------------------------------- expand_message_xmd (section 5.3.1)
// Returns an empty string where the RFC says ABORT (ell > 255, len_in_bytes > 65535) -- except for len(DST) > 255,
// which is handled as section 5.3.3 prescribes: DST = H("H2C-OVERSIZE-DST-" || DST).
inline Bytes expand_message_xmd(HashId h, const Bytes &msg, const Bytes &dst_in, size_t len_in_bytes) {
    const size_t b_in_bytes = hash_len(h), s_in_bytes = hash_block(h);
    Bytes dst = dst_in;
    if (dst.size() > 255) dst = hash(h, cat(str("H2C-OVERSIZE-DST-"), dst_in));
    size_t ell = (len_in_bytes + b_in_bytes - 1) / b_in_bytes;
    if (ell > 255 || len_in_bytes > 65535) return Bytes();
    Bytes dst_prime = dst;
    dst_prime.push_back((uint8_t) dst.size());                 // DST || I2OSP(len(DST), 1)
    Bytes msg_prime(s_in_bytes, 0);                            // Z_pad
    msg_prime = cat(msg_prime, msg);
    msg_prime.push_back((uint8_t)(len_in_bytes >> 8));         // l_i_b_str = I2OSP(len_in_bytes, 2)
    msg_prime.push_back((uint8_t) len_in_bytes);
    msg_prime.push_back(0);                                    // I2OSP(0, 1)
    msg_prime = cat(msg_prime, dst_prime);
    Bytes b_0 = hash(h, msg_prime);
    Bytes in = b_0;
    in.push_back(1);
    Bytes b_prev = hash(h, cat(in, dst_prime));                // b_1
    Bytes uniform = b_prev;
    for (size_t i = 2; i <= ell; i++) {
        Bytes x(b_in_bytes);
        for (size_t j = 0; j < b_in_bytes; j++) x[j] = b_0[j] ^ b_prev[j];  // strxor(b_0, b_(i-1))
        x.push_back((uint8_t) i);
        b_prev = hash(h, cat(x, dst_prime));
        uniform = cat(uniform, b_prev);
    }
    uniform.resize(len_in_bytes);
    return uniform;
}

// NOT RFC 9380 -- a model of one specific deviation, provided only so that a caller can classify a mismatch.
// For an over-long DST (> 255 bytes) b_0 is computed with DST_prime = H("H2C-OVERSIZE-DST-" || DST) || len as in the
// RFC, but b_1 .. b_ell are computed with (b_0 || I2OSP(b_in_bytes, 1)) in place of DST_prime, which is what happens
// when an implementation keeps the reduced DST in the same buffer that later receives b_0. For DSTs of at most
// 255 bytes this is identical to expand_message_xmd.
inline Bytes expand_message_xmd_oversize_dst_clobbered(HashId h, const Bytes &msg, const Bytes &dst_in, size_t len_in_bytes) {
    if (dst_in.size() <= 255) return expand_message_xmd(h, msg, dst_in, len_in_bytes);
    const size_t b_in_bytes = hash_len(h), s_in_bytes = hash_block(h);
    size_t ell = (len_in_bytes + b_in_bytes - 1) / b_in_bytes;
    if (ell > 255 || len_in_bytes > 65535) return Bytes();
    Bytes dst_prime = hash(h, cat(str("H2C-OVERSIZE-DST-"), dst_in));
    dst_prime.push_back((uint8_t) b_in_bytes);
    Bytes msg_prime(s_in_bytes, 0);
    msg_prime = cat(msg_prime, msg);
    msg_prime.push_back((uint8_t)(len_in_bytes >> 8));
    msg_prime.push_back((uint8_t) len_in_bytes);
    msg_prime.push_back(0);
    Bytes b_0 = hash(h, cat(msg_prime, dst_prime));
    Bytes clobbered = b_0;  // takes the place of DST_prime from here on
    clobbered.push_back((uint8_t) b_in_bytes);
    Bytes uniform, b_prev(b_in_bytes, 0);
    for (size_t i = 1; i <= ell; i++) {
        Bytes x(b_in_bytes);
        for (size_t j = 0; j < b_in_bytes; j++) x[j] = b_0[j] ^ b_prev[j];
        x.push_back((uint8_t) i);
        b_prev = hash(h, cat(x, clobbered));
        uniform = cat(uniform, b_prev);
    }
    uniform.resize(len_in_bytes);
    return uniform;
}

// ---------------------------------------------------------------- hash_to_field (section 5.2), m = 1, L = 48
// (quirk = true substitutes expand_message_xmd_oversize_dst_clobbered; it only matters for len(DST) > 255.)
inline std::vector<U> h2c_hash_to_field_25519(HashId h, const Bytes &msg, const Bytes &dst, size_t count, bool quirk = false) {
    const size_t L = 48;  // ceil((255 + 128) / 8)
    Bytes uniform = quirk ? expand_message_xmd_oversize_dst_clobbered(h, msg, dst, count * L) : expand_message_xmd(h, msg, dst, count * L);
    std::vector<U> out;
    for (size_t i = 0; i < count; i++) out.push_back(fp_red(u_from_be(sub(uniform, i * L, L))));  // OS2IP(tv) mod p
    return out;
}

// ---------------------------------------------------------------- Elligator 2 (section 6.7.1) for curve25519
// K * t^2 = s^3 + J * s^2 + s with J = 486662, K = 1, Z = 2. Returns the Montgomery point (s, t).
inline void h2c_map_to_curve25519(const U &u, U &s, U &t) {
    const U J(486662), Z(2);
    U x1 = fp_mul(fp_neg(J), fp_inv(fp_add(U(1), fp_mul(Z, fp_sq(u)))));  // -(J/K) * inv0(1 + Z*u^2)
    if (u_is_zero(x1)) x1 = fp_neg(J);
    auto g = [&](const U &x) {  // x^3 + J*x^2 + x
        U xx = fp_sq(x);
        return fp_add(fp_add(fp_mul(xx, x), fp_mul(J, xx)), x);
    };
    U gx1 = g(x1);
    U x2 = fp_sub(fp_neg(x1), J);
    U gx2 = g(x2);
    U x, y;
    if (fp_is_square(gx1)) {
        x = x1;
        fp_sqrt(gx1, y);
        if (!fp_is_odd(y)) y = fp_neg(y);  // sgn0(y) == 1  (y = 0 stays 0)
    } else {
        x = x2;
        fp_sqrt(gx2, y);
        if (fp_is_odd(y)) y = fp_neg(y);   // sgn0(y) == 0
    }
    s = x;  // s = x * K, t = y * K with K = 1
    t = y;
}

// ---------------------------------------------------------------- Montgomery -> twisted Edwards (appendix D.1)
// (v, w) = (sqrt(-486664) * s / t, (s - 1) / (s + 1)), with the root chosen such that sgn0 == 0 (appendix G.2.2);
// exceptional cases (t == 0 or s == -1) map to the identity (0, 1).
inline Pt h2c_mont_to_edwards(const U &s, const U &t) {
    static const U c1 = [] {
        U r;
        fp_sqrt(fp_neg(U(486664)), r);
        return fp_is_odd(r) ? fp_neg(r) : r;
    }();
    U sp1 = fp_add(s, U(1));
    if (u_is_zero(fp_red(t)) || u_is_zero(sp1)) return Pt();
    U v = fp_mul(fp_mul(c1, s), fp_inv(t));
    U w = fp_mul(fp_sub(s, U(1)), fp_inv(sp1));
    return Pt(v, w);
}

// map_to_curve for edwards25519 (section 6.8.2): Elligator 2 to curve25519, then the rational map.
inline Pt h2c_map_to_edwards25519(const U &u) {
    U s, t;
    h2c_map_to_curve25519(u, s, t);
    return h2c_mont_to_edwards(s, t);
}

// hash_to_curve (ro = true) / encode_to_curve (ro = false) of section 3, with h_eff = 8; the result as a point.
// dst is used exactly as given.
inline Pt h2c_edwards25519_pt(HashId h, bool ro, const Bytes &msg, const Bytes &dst, bool quirk = false) {
    if (ro) {
        std::vector<U> u = h2c_hash_to_field_25519(h, msg, dst, 2, quirk);
        Pt q0 = h2c_map_to_edwards25519(u[0]), q1 = h2c_map_to_edwards25519(u[1]);
        return pt_mul(U(8), pt_add(q0, q1));  // clear_cofactor(Q0 + Q1)
    }
    std::vector<U> u = h2c_hash_to_field_25519(h, msg, dst, 1, quirk);
    return pt_mul(U(8), h2c_map_to_edwards25519(u[0]));
}
// The same, as the 32-byte RFC 8032 encoding of the point.
// h = H_SHA512 gives the suites edwards25519_XMD:SHA-512_ELL2_RO_ / _NU_; h = H_SHA256 is the same construction
// with SHA-256 as the expand_message_xmd hash.
inline Bytes h2c_edwards25519(HashId h, bool ro, const Bytes &msg, const Bytes &dst, bool quirk = false) {
    return pt_encode(h2c_edwards25519_pt(h, ro, msg, dst, quirk));
}

// ristretto255 hash (RFC 9380 appendix B): uniform = expand_message_xmd(msg, DST, 64); one-way map of RFC 9496.
inline Bytes h2c_ristretto255(HashId h, const Bytes &msg, const Bytes &dst, bool quirk = false) {
    return ristretto_from_uniform(quirk ? expand_message_xmd_oversize_dst_clobbered(h, msg, dst, 64) : expand_message_xmd(h, msg, dst, 64));
}

}  // namespace ref
