// harness/simcpu.hpp -- simulated x86-64 processors for the "feature flags never include a feature the processor and OS do not provide" half
// of C10, with two stock Linux mechanisms (no emulator, the real library code runs):
//
//  * CPUID faulting (arch_prctl(ARCH_SET_CPUID, 0)): every CPUID instruction raises SIGSEGV; the handler executes the real CPUID, clears
//    the bits the simulated machine does not have, and resumes after the instruction.  The library's own detection code
//    (runtime.c:_sodium_runtime_intel_cpu_features) therefore runs against a different processor.
//  * single stepping (EFLAGS.TF -> SIGTRAP after every instruction): while a library call runs, the encoding of every instruction executed
//    inside this executable (the library is linked statically) is classified by the ISA extension it belongs to; an instruction of an
//    extension the simulated machine lacks would raise SIGILL there.
//
// need_of() is a classifier, not a disassembler: it recognises the encodings that *define* an extension (VEX / EVEX prefixes, the 0F 38 / 0F 3A
// opcode maps, the SSE3 and RDRAND opcodes).  selftest() pins it on hand-assembled instructions of every class, including the AVX-vs-AVX2
// distinctions (vmovdqa ymm is AVX, vpxor ymm is AVX2; vinsertf128 is AVX, vinserti128 is AVX2).
#pragma once
#ifndef _GNU_SOURCE
#define _GNU_SOURCE
#endif
#include <signal.h>
#include <stdint.h>
#include <string.h>
#include <sys/syscall.h>
#include <ucontext.h>
#include <unistd.h>

extern "C" char __executable_start[];
extern "C" char etext[];

namespace simcpu {

// same bit order as the hook's mask (runtime.c)
enum : unsigned { SSE2 = 1, SSE3 = 2, SSSE3 = 4, SSE41 = 8, AVX = 16, AVX2 = 32, AVX512F = 64, PCLMUL = 128, AESNI = 256, RDRAND = 512 };
inline const char *feat_name(unsigned f) {
    switch (f) { case SSE2: return "sse2"; case SSE3: return "sse3"; case SSSE3: return "ssse3"; case SSE41: return "sse4.1"; case AVX: return "avx"; case AVX2: return "avx2";
                 case AVX512F: return "avx512f"; case PCLMUL: return "pclmul"; case AESNI: return "aesni"; case RDRAND: return "rdrand"; default: return "?"; }
}
inline std::string feat_list(unsigned m) { std::string s; for (unsigned f = 1; f <= RDRAND; f <<= 1) if (m & f) { if (!s.empty()) s += "+"; s += feat_name(f); } return s.empty() ? "none" : s; }

// ---- what the simulated machine reports: bits cleared in the real CPUID results
struct Machine { uint32_t clr1_ecx = 0, clr1_edx = 0, clr7_ebx = 0; };
enum : uint32_t { E1_SSE3 = 1u << 0, E1_PCLMUL = 1u << 1, E1_SSSE3 = 1u << 9, E1_SSE41 = 1u << 19, E1_AESNI = 1u << 25, E1_XSAVE = 1u << 26, E1_OSXSAVE = 1u << 27, E1_AVX = 1u << 28, E1_RDRAND = 1u << 30,
                  D1_SSE2 = 1u << 26, B7_AVX2 = 1u << 5, B7_AVX512F = 1u << 16 };

inline void real_cpuid(uint32_t leaf, uint32_t sub, uint32_t r[4]) { __asm__ __volatile__("cpuid" : "=a"(r[0]), "=b"(r[1]), "=c"(r[2]), "=d"(r[3]) : "0"(leaf), "2"(sub)); }
inline uint32_t real_xcr0() { uint32_t a, d; __asm__ __volatile__(".byte 0x0f, 0x01, 0xd0" : "=a"(a), "=d"(d) : "c"(0)); return a; }

// features the simulated processor + OS provide, by the detection procedure of the Intel SDM (vol. 1, 14.3 / 14.7.1 / 15.2): AVX needs
// CPUID.1:ECX.OSXSAVE and .AVX and XCR0[2:1] = 11b; AVX2 needs AVX and CPUID.7.0:EBX.AVX2; AVX-512F needs AVX, CPUID.7.0:EBX.AVX512F and XCR0[7:5] = 111b
inline unsigned provided(const Machine &m, bool cpuid_faulting_active) {
    uint32_t r1[4], r7[4];
    if (cpuid_faulting_active) { syscall(SYS_arch_prctl, 0x1012, 1UL); }
    real_cpuid(1, 0, r1); real_cpuid(7, 0, r7);
    uint32_t xcr0 = (r1[2] & E1_OSXSAVE) ? real_xcr0() : 0;
    if (cpuid_faulting_active) { syscall(SYS_arch_prctl, 0x1012, 0UL); }
    uint32_t c = r1[2] & ~m.clr1_ecx, d = r1[3] & ~m.clr1_edx, b = r7[1] & ~m.clr7_ebx;
    unsigned f = 0;
    if (d & D1_SSE2) f |= SSE2;
    if (c & E1_SSE3) f |= SSE3;
    if (c & E1_SSSE3) f |= SSSE3;
    if (c & E1_SSE41) f |= SSE41;
    if (c & E1_PCLMUL) f |= PCLMUL;
    if (c & E1_AESNI) f |= AESNI;
    if (c & E1_RDRAND) f |= RDRAND;
    if ((c & E1_OSXSAVE) && (c & E1_AVX) && (xcr0 & 6) == 6) {
        f |= AVX;
        if (b & B7_AVX2) f |= AVX2;
        if ((b & B7_AVX512F) && (xcr0 & 0xe0) == 0xe0) f |= AVX512F;
    }
    return f;
}

// ---- instruction classifier: ISA extensions the instruction at p belongs to (0: baseline x86-64 incl. SSE2, or not one of the traced extensions)
inline bool in_set(uint8_t op, std::initializer_list<std::pair<int, int>> ranges) { for (auto &r : ranges) if (op >= r.first && op <= r.second) return true; return false; }
inline unsigned vex_need(unsigned map, unsigned pp, unsigned L, uint8_t op) {
    if (map == 2 && in_set(op, { { 0xf2, 0xf3 }, { 0xf5, 0xf7 } })) return 0;          // BMI1/BMI2 (general-purpose registers): not an AVX instruction
    if (map == 3 && op == 0xf0) return 0;                                               // RORX
    unsigned need = AVX;
    if (map == 2 && op >= 0xdb && op <= 0xdf) need |= AESNI;
    if (map == 3 && op == 0xdf) need |= AESNI;
    if (map == 3 && op == 0x44) need |= PCLMUL;
    bool avx2 = false;
    if (map == 1) {
        if (L == 1 && pp == 1 && in_set(op, { { 0x60, 0x6d }, { 0x70, 0x76 }, { 0xd1, 0xd5 }, { 0xd7, 0xdf }, { 0xe0, 0xe5 }, { 0xe8, 0xef }, { 0xf1, 0xf6 }, { 0xf8, 0xfe } })) avx2 = true;
        if (L == 1 && (pp == 2 || pp == 3) && op == 0x70) avx2 = true;
    } else if (map == 2) {
        if (L == 1 && pp == 1 && in_set(op, { { 0x00, 0x0b }, { 0x16, 0x16 }, { 0x1c, 0x1e }, { 0x20, 0x25 }, { 0x28, 0x2b }, { 0x30, 0x40 } })) avx2 = true;
        if (in_set(op, { { 0x45, 0x47 }, { 0x58, 0x5a }, { 0x78, 0x79 }, { 0x8c, 0x8c }, { 0x8e, 0x8e }, { 0x90, 0x93 } })) avx2 = true;
    } else if (map == 3) {
        if (L == 1 && pp == 1 && in_set(op, { { 0x0e, 0x0f }, { 0x42, 0x42 }, { 0x4c, 0x4c } })) avx2 = true;
        if (in_set(op, { { 0x00, 0x02 }, { 0x38, 0x39 }, { 0x46, 0x46 } })) avx2 = true;
    }
    if (avx2) need |= AVX2;
    return need;
}
inline unsigned need_of(const uint8_t *p) {
    int i = 0; bool p66 = false, pf2 = false, pf3 = false;
    for (; i < 4; i++) {
        uint8_t b = p[i];
        if (b == 0x66) p66 = true; else if (b == 0xf2) pf2 = true; else if (b == 0xf3) pf3 = true;
        else if (b == 0x2e || b == 0x36 || b == 0x3e || b == 0x26 || b == 0x64 || b == 0x65 || b == 0x67 || b == 0xf0) { }
        else break;
    }
    uint8_t b = p[i];
    if (b == 0x62) return AVX512F;                                      // in 64-bit mode 62 is always EVEX
    if (b == 0xc5) { uint8_t v = p[i + 1]; return vex_need(1, v & 3, (v >> 2) & 1, p[i + 2]); }
    if (b == 0xc4) { uint8_t v1 = p[i + 1], v2 = p[i + 2]; return vex_need(v1 & 0x1f, v2 & 3, (v2 >> 2) & 1, p[i + 3]); }
    if ((b & 0xf0) == 0x40) { i++; b = p[i]; }                          // REX
    if (b != 0x0f) return 0;
    uint8_t b2 = p[i + 1], op = p[i + 2];
    if (b2 == 0x38) {
        if (in_set(op, { { 0x00, 0x0b }, { 0x1c, 0x1e } })) return SSSE3;
        if (in_set(op, { { 0x10, 0x10 }, { 0x14, 0x15 }, { 0x17, 0x17 }, { 0x20, 0x25 }, { 0x28, 0x2b }, { 0x30, 0x35 }, { 0x37, 0x41 } })) return SSE41;
        if (op >= 0xdb && op <= 0xdf) return AESNI;
        return 0;
    }
    if (b2 == 0x3a) {
        if (op == 0x0f) return SSSE3;
        if (in_set(op, { { 0x08, 0x0e }, { 0x14, 0x17 }, { 0x20, 0x22 }, { 0x40, 0x42 } })) return SSE41;
        if (op == 0x44) return PCLMUL;
        if (op == 0xdf) return AESNI;
        return 0;
    }
    if (b2 == 0xc7) { uint8_t modrm = op; if ((modrm >> 6) == 3 && ((modrm >> 3) & 7) == 6 && !pf3) return RDRAND; return 0; }
    if (pf2 && (b2 == 0x7c || b2 == 0x7d || b2 == 0xd0 || b2 == 0xf0 || b2 == 0x12)) return SSE3;
    if (p66 && !pf2 && !pf3 && (b2 == 0x7c || b2 == 0x7d || b2 == 0xd0)) return SSE3;
    if (pf3 && (b2 == 0x12 || b2 == 0x16)) return SSE3;
    return 0;
}
// hand-assembled instructions of every class; returns the index of the first disagreement or -1
inline int selftest() {
    struct T { uint8_t b[8]; unsigned want; };
    static const T t[] = {
        { { 0xc5, 0xfd, 0x6f, 0x07 }, AVX },                       // vmovdqa ymm0,[rdi]
        { { 0xc5, 0xfd, 0xef, 0xc1 }, AVX | AVX2 },                // vpxor ymm0,ymm0,ymm1
        { { 0xc5, 0xf9, 0xef, 0xc1 }, AVX },                       // vpxor xmm0,xmm0,xmm1
        { { 0xc5, 0xfd, 0xfe, 0xc1 }, AVX | AVX2 },                // vpaddd ymm
        { { 0xc5, 0xfc, 0x58, 0xc1 }, AVX },                       // vaddps ymm
        { { 0xc5, 0xfd, 0x70, 0xc1, 0x4e }, AVX | AVX2 },          // vpshufd ymm
        { { 0xc5, 0xfd, 0x7f, 0x07 }, AVX },                       // vmovdqa [rdi],ymm0
        { { 0xc5, 0xfd, 0xe7, 0x07 }, AVX },                       // vmovntdq [rdi],ymm0
        { { 0xc4, 0xe2, 0x7d, 0x00, 0xc1 }, AVX | AVX2 },          // vpshufb ymm
        { { 0xc4, 0xe2, 0x79, 0x00, 0xc1 }, AVX },                 // vpshufb xmm
        { { 0xc4, 0xe3, 0x7d, 0x18, 0xc1, 0x01 }, AVX },           // vinsertf128
        { { 0xc4, 0xe3, 0x7d, 0x38, 0xc1, 0x01 }, AVX | AVX2 },    // vinserti128
        { { 0xc4, 0xe3, 0x7d, 0x06, 0xc1, 0x01 }, AVX },           // vperm2f128
        { { 0xc4, 0xe3, 0x7d, 0x46, 0xc1, 0x01 }, AVX | AVX2 },    // vperm2i128
        { { 0xc4, 0xe3, 0xfd, 0x00, 0xc1, 0x4e }, AVX | AVX2 },    // vpermq ymm
        { { 0xc4, 0xe2, 0x7d, 0x18, 0x07 }, AVX },                 // vbroadcastss ymm0,[rdi]
        { { 0xc4, 0xe2, 0x7d, 0x58, 0x07 }, AVX | AVX2 },          // vpbroadcastd ymm0,[rdi]
        { { 0xc4, 0xe2, 0x79, 0xdc, 0xc1 }, AVX | AESNI },         // vaesenc xmm
        { { 0xc4, 0xe3, 0x79, 0x44, 0xc1, 0x00 }, AVX | PCLMUL },  // vpclmulqdq xmm
        { { 0xc4, 0xe2, 0x78, 0xf2, 0xc1 }, 0 },                   // andn (BMI1)
        { { 0x66, 0x0f, 0x38, 0xdc, 0xc1 }, AESNI },               // aesenc
        { { 0x66, 0x0f, 0x3a, 0xdf, 0xc1, 0x01 }, AESNI },         // aeskeygenassist
        { { 0x66, 0x0f, 0x3a, 0x44, 0xc1, 0x00 }, PCLMUL },        // pclmulqdq
        { { 0x66, 0x0f, 0x38, 0x00, 0xc1 }, SSSE3 },               // pshufb
        { { 0x66, 0x41, 0x0f, 0x38, 0x00, 0xc1 }, SSSE3 },         // pshufb xmm0,xmm9
        { { 0x66, 0x0f, 0x3a, 0x0f, 0xc1, 0x04 }, SSSE3 },         // palignr
        { { 0x66, 0x0f, 0x38, 0x17, 0xc1 }, SSE41 },               // ptest
        { { 0x66, 0x0f, 0x3a, 0x16, 0xc0, 0x01 }, SSE41 },         // pextrd
        { { 0x66, 0x0f, 0x3a, 0x0e, 0xc1, 0xf0 }, SSE41 },         // pblendw
        { { 0xf2, 0x0f, 0xf0, 0x07 }, SSE3 },                      // lddqu
        { { 0xf3, 0x0f, 0x16, 0xc1 }, SSE3 },                      // movshdup
        { { 0x62, 0xf1, 0x7d, 0x48, 0x6f, 0x07 }, AVX512F },       // vmovdqa32 zmm0,[rdi]
        { { 0x66, 0x0f, 0xef, 0xc1 }, 0 },                         // pxor xmm (SSE2)
        { { 0x66, 0x0f, 0x6f, 0x07 }, 0 },                         // movdqa
        { { 0xf3, 0x0f, 0x6f, 0x07 }, 0 },                         // movdqu
        { { 0x48, 0x89, 0xc8 }, 0 },                               // mov rax,rcx
        { { 0x0f, 0xa2 }, 0 },                                     // cpuid
        { { 0x0f, 0xc7, 0xf0 }, RDRAND },                          // rdrand eax
        { { 0x48, 0x0f, 0xc7, 0x0f }, 0 },                         // cmpxchg16b [rdi]
    };
    for (size_t i = 0; i < sizeof t / sizeof t[0]; i++) if (need_of(t[i].b) != t[i].want) return (int) i;
    return -1;
}

// ---- signal handlers (process-global state: one simulated machine per forked child)
inline Machine &g_machine() { static Machine m; return m; }
struct TraceState { volatile unsigned long steps, inlib, limit; volatile unsigned long by_feat[10]; volatile unsigned absent; volatile unsigned long n_bad; volatile uintptr_t first_bad; volatile unsigned first_bad_need; };
inline TraceState &g_trace() { static TraceState t; return t; }

inline void on_segv(int, siginfo_t *, void *ucv) {
    ucontext_t *uc = (ucontext_t *) ucv; greg_t *g = uc->uc_mcontext.gregs;
    const uint8_t *ip = (const uint8_t *) g[REG_RIP];
    if (ip[0] == 0x0f && ip[1] == 0xa2) {
        uint32_t r[4], leaf = (uint32_t) g[REG_RAX], sub = (uint32_t) g[REG_RCX];
        syscall(SYS_arch_prctl, 0x1012, 1UL); real_cpuid(leaf, sub, r); syscall(SYS_arch_prctl, 0x1012, 0UL);
        const Machine &m = g_machine();
        if (leaf == 1) { r[2] &= ~m.clr1_ecx; r[3] &= ~m.clr1_edx; }
        if (leaf == 7 && sub == 0) r[1] &= ~m.clr7_ebx;
        g[REG_RAX] = r[0]; g[REG_RBX] = r[1]; g[REG_RCX] = r[2]; g[REG_RDX] = r[3]; g[REG_RIP] += 2;
        return;
    }
    signal(SIGSEGV, SIG_DFL);      // a genuine fault: let it happen again
}
inline void on_trap(int, siginfo_t *, void *ucv) {
    ucontext_t *uc = (ucontext_t *) ucv; uintptr_t rip = (uintptr_t) uc->uc_mcontext.gregs[REG_RIP];
    TraceState &t = g_trace();
    t.steps++;
    if (rip < (uintptr_t) __executable_start || rip >= (uintptr_t) etext) return;
    t.inlib++;
    // a trap costs microseconds: each call is followed for `limit` instructions (enough to be well inside the selected implementation), then
    // the trap flag is cleared in the interrupted context and the call finishes at full speed
    if (t.limit && t.inlib >= t.limit) uc->uc_mcontext.gregs[REG_EFL] &= ~0x100L;
    unsigned need = need_of((const uint8_t *) rip);
    if (!need) return;
    for (int k = 0; k < 10; k++) if (need & (1u << k)) t.by_feat[k]++;
    if (need & t.absent) { if (t.n_bad == 0) { t.first_bad = rip; t.first_bad_need = need & t.absent; } t.n_bad++; }
}
// returns false when the host cannot fault CPUID (the simulation is then impossible: the caller skips and counts)
inline bool enter(const Machine &m) {
    g_machine() = m;
    struct sigaction sa; memset(&sa, 0, sizeof sa);
    sa.sa_sigaction = on_segv; sa.sa_flags = SA_SIGINFO | SA_NODEFER; sigaction(SIGSEGV, &sa, nullptr);
    sa.sa_sigaction = on_trap; sa.sa_flags = SA_SIGINFO; sigaction(SIGTRAP, &sa, nullptr);
    return syscall(SYS_arch_prctl, 0x1012, 0UL) == 0;
}
#define SIMCPU_TRACE_ON()  __asm__ __volatile__("lea -128(%%rsp), %%rsp\n\tpushfq\n\torq $0x100, (%%rsp)\n\tpopfq\n\tlea 128(%%rsp), %%rsp" ::: "memory", "cc")
#define SIMCPU_TRACE_OFF() __asm__ __volatile__("lea -128(%%rsp), %%rsp\n\tpushfq\n\tandq $~0x100, (%%rsp)\n\tpopfq\n\tlea 128(%%rsp), %%rsp" ::: "memory", "cc")

}  // namespace simcpu
