// vh_main.hpp -- main() for property executables.  The including file defines
//   std::vector<vh::Sub> vh_subs();
// Optional: define VH_NO_SODIUM_INIT before including to skip sodium_init().
#pragma once
#include "vh.hpp"
#include <sodium.h>
#include <chrono>

std::vector<vh::Sub> vh_subs();

namespace vh {

inline unsigned long current_features() {
    unsigned long f = 0;
    if (sodium_runtime_has_sse2()) f |= F_SSE2;
    if (sodium_runtime_has_sse3()) f |= F_SSE3;
    if (sodium_runtime_has_ssse3()) f |= F_SSSE3;
    if (sodium_runtime_has_sse41()) f |= F_SSE41;
    if (sodium_runtime_has_avx()) f |= F_AVX;
    if (sodium_runtime_has_avx2()) f |= F_AVX2;
    if (sodium_runtime_has_avx512f()) f |= F_AVX512F;
    if (sodium_runtime_has_pclmul()) f |= F_PCLMUL;
    if (sodium_runtime_has_aesni()) f |= F_AESNI;
    if (sodium_runtime_has_rdrand()) f |= F_RDRAND;
    return f;
}
inline unsigned long &detected_ref() { static unsigned long d = 0; return d; }
inline unsigned long detected_features() { return detected_ref(); }
inline void set_mask(unsigned long m) {
    sodium_verif_set_cpu_mask(m);
    unsigned long want = detected_features() & m;
    if (current_features() != want) {
        fprintf(stderr, "VH-INFRA cpu mask hook ineffective: mask=%lx have=%lx want=%lx\n", m, current_features(), want);
        _exit(2);
    }
}
// The chain of masks that select distinct dispatch outcomes on this host.
inline std::vector<Mask> mask_set(bool with_aes_axis) {
    std::vector<Mask> out;
    unsigned long det = detected_features();
    struct { unsigned long m; const char *n; } chain[] = {
        { F_ALL, "all" },
        { F_ALL & ~F_AVX512F, "-avx512f" },
        { F_ALL & ~(F_AVX512F | F_AVX2), "-avx2" },
        { F_ALL & ~(F_AVX512F | F_AVX2 | F_AVX), "-avx" },
        { F_ALL & ~(F_AVX512F | F_AVX2 | F_AVX | F_SSE41), "-sse41" },
        { F_ALL & ~(F_AVX512F | F_AVX2 | F_AVX | F_SSE41 | F_SSSE3), "-ssse3" },
        { F_ALL & ~(F_AVX512F | F_AVX2 | F_AVX | F_SSE41 | F_SSSE3 | F_SSE3), "-sse3" },
        { 0, "none" },
    };
    std::vector<unsigned long> seen;
    for (auto &c : chain) {
        unsigned long eff = c.m & det;
        if (std::find(seen.begin(), seen.end(), eff) != seen.end()) continue;
        seen.push_back(eff);
        out.push_back({ c.m, c.n });
    }
    if (with_aes_axis && (det & F_AESNI)) {
        unsigned long m = F_ALL & ~(F_AESNI | F_PCLMUL);
        out.push_back({ m, "all-aes" });
    }
    return out;
}

inline int run_main(int argc, char **argv) {
    Ctx ctx;
    std::string replay;
    for (int i = 1; i < argc; i++) {
        std::string a = argv[i];
        auto nxt = [&]() -> std::string { return (i + 1 < argc) ? argv[++i] : ""; };
        if (a == "--tier") ctx.tier = nxt();
        else if (a == "--seed") ctx.seed = strtoull(nxt().c_str(), nullptr, 10);
        else if (a == "--worker") ctx.worker = atoi(nxt().c_str());
        else if (a == "--nworkers") ctx.nworkers = atoi(nxt().c_str());
        else if (a == "--out") ctx.out = nxt();
        else if (a == "--replaydir") ctx.replaydir = nxt();
        else if (a == "--replay") replay = nxt();
        else if (a == "--sub") ctx.only_sub = nxt();
        else if (a == "--known") ctx.known.push_back(nxt());
        else if (a == "--list") { for (auto &s : vh_subs()) printf("%s\n", s.name); return 0; }
    }
    if (ctx.nworkers < 1) ctx.nworkers = 1;
#ifndef VH_NO_SODIUM_INIT
    if (sodium_init() < 0) { fprintf(stderr, "VH-INFRA sodium_init failed\n"); return 2; }
    sodium_verif_set_cpu_mask(F_ALL);
    detected_ref() = current_features();
#endif
    install_death_hooks(ctx.replaydir);
    auto subs = vh_subs();
    if (!replay.empty()) {
        FILE *f = fopen(replay.c_str(), "rb");
        if (!f) { fprintf(stderr, "VH-INFRA cannot open %s\n", replay.c_str()); return 2; }
        std::string txt; char buf[4096]; size_t n;
        while ((n = fread(buf, 1, sizeof buf, f)) > 0) txt.append(buf, n);
        fclose(f);
        KV kv = KV::parse(txt);
        std::string sub = kv.gs("sub");
        for (auto &s : subs) {
            if (sub == s.name) {
                std::string msg;
                inflight().active = false;
                bool ok = s.replay(kv, msg);
                if (ok) { printf("REPLAY-PASS sub=%s\n", sub.c_str()); return 0; }
                printf("REPLAY-FAIL sub=%s msg=%s\n", sub.c_str(), msg.c_str());
                return 1;
            }
        }
        fprintf(stderr, "VH-INFRA unknown sub '%s' in replay file\n", sub.c_str());
        return 2;
    }
    auto t0 = std::chrono::steady_clock::now();
    for (auto &s : subs) {
        if (!ctx.only_sub.empty() && ctx.only_sub != s.name) continue;
        ctx.enter_sub(s.name);
        auto ts = std::chrono::steady_clock::now();
        s.explore(ctx);
#ifndef VH_NO_SODIUM_INIT
        sodium_verif_set_cpu_mask(F_ALL);
#endif
        double dt = std::chrono::duration<double>(std::chrono::steady_clock::now() - ts).count();
        char b[64]; snprintf(b, sizeof b, "%.2f", dt);
        ctx.notes[std::string("time_") + s.name] = b;
    }
    double wall = std::chrono::duration<double>(std::chrono::steady_clock::now() - t0).count();
    // ---- write worker result
    if (!ctx.out.empty()) {
        std::string o = "{";
        o += "\"evaluations\":" + std::to_string(ctx.evaluations);
        o += ",\"distinct\":" + std::to_string(ctx.distinct.size());
        o += ",\"excluded_known\":" + std::to_string(ctx.excluded_known);
        o += ",\"nontrivial_untracked\":" + std::to_string(ctx.nontrivial_untracked);
        char wb[64]; snprintf(wb, sizeof wb, "%.3f", wall);
        o += std::string(",\"wall_s\":") + wb;
        o += ",\"sub_evals\":{";
        bool first = true;
        for (auto &p : ctx.sub_evals) { if (!first) o += ","; first = false; o += "\"" + json_escape(p.first) + "\":" + std::to_string(p.second); }
        o += "},\"classes\":{";
        first = true;
        for (auto &p : ctx.classes) { if (!first) o += ","; first = false; o += "\"" + json_escape(p.first) + "\":" + std::to_string(p.second); }
        o += "},\"notes\":{";
        first = true;
        for (auto &p : ctx.notes) { if (!first) o += ","; first = false; o += "\"" + json_escape(p.first) + "\":\"" + json_escape(p.second) + "\""; }
        o += "},\"samples\":[";
        first = true;
        for (auto &s : ctx.samples) { if (!first) o += ","; first = false; o += "\"" + json_escape(s) + "\""; }
        o += "],\"failures\":[";
        first = true;
        for (auto &f : ctx.failures) {
            if (!first) o += ","; first = false;
            o += "{\"sub\":\"" + json_escape(f.sub) + "\",\"msg\":\"" + json_escape(f.msg) + "\",\"file\":\"" + json_escape(f.file) + "\",\"case\":\"" + json_escape(f.kv.brief()) + "\"}";
        }
        o += "]}";
        // distinct keys, binary, for exact union across workers
        std::string keys;
        keys.reserve(ctx.distinct.size() * 8);
        for (uint64_t k : ctx.distinct) keys.append((const char *) &k, 8);
        write_file(ctx.out + ".keys", keys);
        write_file(ctx.out, o);
    }
    fprintf(stderr, "[worker %d/%d] evaluations=%llu distinct=%zu failures=%zu wall=%.1fs\n", ctx.worker, ctx.nworkers,
            (unsigned long long) ctx.evaluations, ctx.distinct.size(), ctx.failures.size(), wall);
    return ctx.failures.empty() ? 0 : 1;
}

}  // namespace vh

#ifndef VH_CUSTOM_MAIN
int main(int argc, char **argv) { return vh::run_main(argc, argv); }
#endif
