// vh.hpp -- common harness layer for all /verif property checks.
//
// A property executable registers sub-properties.  Each sub-property has
//   explore(Ctx&)          generate / enumerate cases, run them against the oracle
//   replay(const KV&, msg) re-run exactly one case from its text form (bypasses all generators)
// Cases are typed structs local to each property; KV is their text form
// ("name=hex|int" lines) used for replay files and evidence samples.
#pragma once
#include <cstdint>
#include <cstdio>
#include <cstdlib>
#include <cstring>
#include <string>
#include <vector>
#include <map>
#include <unordered_set>
#include <functional>
#include <algorithm>
#include <csignal>
#include <unistd.h>
#include <fcntl.h>
#include <sys/stat.h>
#include <sys/mman.h>

extern "C" int sodium_verif_set_cpu_mask(unsigned long mask);
#if defined(__has_feature)
# if __has_feature(address_sanitizer)
#  define VH_ASAN 1
# endif
#endif
#if defined(__SANITIZE_ADDRESS__)
# define VH_ASAN 1
#endif
#ifdef VH_ASAN
extern "C" void __sanitizer_set_death_callback(void (*)(void));
extern "C" void __asan_poison_memory_region(void const volatile *, size_t);
extern "C" void __asan_unpoison_memory_region(void const volatile *, size_t);
#endif

namespace vh {

typedef std::vector<uint8_t> Bytes;

// ---------------------------------------------------------------- splitmix64
struct Rng {
    uint64_t s;
    explicit Rng(uint64_t seed) : s(seed) {}
    uint64_t next() {
        uint64_t z = (s += 0x9e3779b97f4a7c15ULL);
        z = (z ^ (z >> 30)) * 0xbf58476d1ce4e5b9ULL;
        z = (z ^ (z >> 27)) * 0x94d049bb133111ebULL;
        return z ^ (z >> 31);
    }
    uint64_t below(uint64_t n) { return n ? next() % n : 0; }
    uint64_t range(uint64_t lo, uint64_t hi) { return lo + below(hi - lo + 1); }  // inclusive
    bool coin() { return next() & 1; }
    void fill(uint8_t *p, size_t n) {
        size_t i = 0;
        while (i < n) {
            uint64_t v = next();
            for (int k = 0; k < 8 && i < n; k++, i++) p[i] = (uint8_t)(v >> (8 * k));
        }
    }
    Bytes bytes(size_t n) { Bytes b(n); fill(b.data(), n); return b; }
    // content classes: 0 random, 1 all-00, 2 all-ff, 3 single bit, 4 counter
    Bytes bytes_class(size_t n, int cls) {
        Bytes b(n);
        switch (cls) {
        case 0: fill(b.data(), n); break;
        case 1: break;
        case 2: std::fill(b.begin(), b.end(), 0xff); break;
        case 3: if (n) b[below(n)] = (uint8_t)(1u << below(8)); break;
        default: for (size_t i = 0; i < n; i++) b[i] = (uint8_t) i; break;
        }
        return b;
    }
};

inline uint64_t mix64(uint64_t h, uint64_t v) {
    h ^= v + 0x9e3779b97f4a7c15ULL + (h << 6) + (h >> 2);
    h *= 0xff51afd7ed558ccdULL;
    h ^= h >> 33;
    return h;
}
inline uint64_t hash_bytes(const void *p, size_t n, uint64_t h = 1469598103934665603ULL) {
    const uint8_t *b = (const uint8_t *) p;
    for (size_t i = 0; i < n; i++) { h ^= b[i]; h *= 1099511628211ULL; }
    return h;
}
inline uint64_t hash_str(const std::string &s) { return hash_bytes(s.data(), s.size()); }

// ---------------------------------------------------------------- hex
inline std::string hex(const uint8_t *p, size_t n) {
    static const char *d = "0123456789abcdef";
    std::string s; s.reserve(2 * n);
    for (size_t i = 0; i < n; i++) { s.push_back(d[p[i] >> 4]); s.push_back(d[p[i] & 15]); }
    return s;
}
inline std::string hex(const Bytes &b) { return hex(b.data(), b.size()); }
inline Bytes unhex(const std::string &s) {
    Bytes b; b.reserve(s.size() / 2);
    auto v = [](char c) -> int { if (c >= '0' && c <= '9') return c - '0'; if (c >= 'a' && c <= 'f') return c - 'a' + 10; if (c >= 'A' && c <= 'F') return c - 'A' + 10; return 0; };
    for (size_t i = 0; i + 1 < s.size(); i += 2) b.push_back((uint8_t)(v(s[i]) * 16 + v(s[i + 1])));
    return b;
}
inline std::string hexshort(const Bytes &b, size_t max = 48) {
    if (b.size() <= max) return hex(b);
    return hex(b.data(), max / 2) + ".." + hex(b.data() + b.size() - max / 2, max / 2) + "(" + std::to_string(b.size()) + "B)";
}

// ---------------------------------------------------------------- KV: text form of a case
struct KV {
    std::vector<std::pair<std::string, std::string>> v;
    KV &s(const std::string &k, const std::string &val) { v.emplace_back(k, val); return *this; }
    KV &i(const std::string &k, long long val) { v.emplace_back(k, std::to_string(val)); return *this; }
    KV &u(const std::string &k, unsigned long long val) { v.emplace_back(k, std::to_string(val)); return *this; }
    KV &b(const std::string &k, const Bytes &val) { v.emplace_back(k, "x" + hex(val)); return *this; }
    KV &b(const std::string &k, const uint8_t *p, size_t n) { v.emplace_back(k, "x" + hex(p, n)); return *this; }
    bool has(const std::string &k) const { for (auto &p : v) if (p.first == k) return true; return false; }
    const std::string &raw(const std::string &k) const {
        static const std::string empty;
        for (auto &p : v) if (p.first == k) return p.second;
        return empty;
    }
    std::string gs(const std::string &k) const { return raw(k); }
    long long gi(const std::string &k) const { return strtoll(raw(k).c_str(), nullptr, 10); }
    unsigned long long gu(const std::string &k) const { return strtoull(raw(k).c_str(), nullptr, 10); }
    Bytes gb(const std::string &k) const { const std::string &r = raw(k); if (r.empty()) return Bytes(); return unhex(r.substr(1)); }
    std::string text() const {
        std::string o;
        for (auto &p : v) { o += p.first; o += "="; o += p.second; o += "\n"; }
        return o;
    }
    // short form for evidence samples: long hex values are abbreviated
    std::string brief() const {
        std::string o;
        for (auto &p : v) {
            if (!o.empty()) o += " ";
            o += p.first + "=";
            if (p.second.size() > 70) o += p.second.substr(0, 32) + ".." + p.second.substr(p.second.size() - 16) + "(" + std::to_string(p.second.size() / 2) + "B)";
            else o += p.second;
        }
        return o;
    }
    static KV parse(const std::string &txt) {
        KV k; size_t pos = 0;
        while (pos < txt.size()) {
            size_t e = txt.find('\n', pos); if (e == std::string::npos) e = txt.size();
            std::string line = txt.substr(pos, e - pos); pos = e + 1;
            size_t eq = line.find('=');
            if (eq == std::string::npos || line.empty() || line[0] == '#') continue;
            k.v.emplace_back(line.substr(0, eq), line.substr(eq + 1));
        }
        return k;
    }
};

inline std::string json_escape(const std::string &s) {
    std::string o;
    for (unsigned char c : s) {
        if (c == '"' || c == '\\') { o.push_back('\\'); o.push_back((char) c); }
        else if (c == '\n') o += "\\n";
        else if (c < 0x20 || c >= 0x7f) { char b[8]; snprintf(b, sizeof b, "\\u%04x", c); o += b; }
        else o.push_back((char) c);
    }
    return o;
}

// ---------------------------------------------------------------- context
struct Failure { std::string sub, msg, file; KV kv; };

struct Ctx {
    std::string tier = "quick";
    uint64_t seed = 1;
    int worker = 0, nworkers = 1;
    std::string out, replaydir = ".";
    std::string only_sub;
    std::string cur_sub;
    uint64_t evaluations = 0;
    std::unordered_set<uint64_t> distinct;           // keys of non-trivial cases
    std::map<std::string, uint64_t> classes;         // histogram
    std::map<std::string, uint64_t> sub_evals;
    std::vector<std::string> samples;
    std::vector<Failure> failures;
    std::map<std::string, int> sub_failed;
    std::vector<std::string> known;                  // known-finding ids excluded by construction
    uint64_t excluded_known = 0;
    std::map<std::string, std::string> notes;
    uint64_t sample_tick = 0;
    uint64_t *cur_evals = nullptr;                    // fast path: counters of the current sub-property
    bool cur_failed = false;
    void enter_sub(const std::string &name) { cur_sub = name; cur_evals = &sub_evals[name]; cur_failed = sub_failed.count(name) > 0; cur_salt = hash_str(name); }
    uint64_t cur_salt = 0;

    bool thorough() const { return tier == "thorough"; }
    bool mine(uint64_t idx) const { return (int)(idx % (uint64_t) nworkers) == worker; }
    Rng rng(const std::string &stream) const { return Rng(mix64(mix64(seed, hash_str(stream)), 0x5eed)); }
    Rng wrng(const std::string &stream) const { return Rng(mix64(mix64(mix64(seed, hash_str(stream)), (uint64_t) worker + 1), 0x5eed)); }
    bool failed() const { return cur_failed; }
    bool is_known(const std::string &id) const { return std::find(known.begin(), known.end(), id) != known.end(); }

    // count one executed case. key identifies the case class for distinctness; nontrivial per property rule
    // Exact de-duplication is bounded (memory): beyond DISTINCT_CAP keys per worker further non-trivial cases are counted
    // but not de-duplicated, so distinct_nontrivial is a lower bound; the overflow is reported in the evidence.
    enum : size_t { DISTINCT_CAP = (size_t) 1 << 19 };
    uint64_t nontrivial_untracked = 0;
    void count(uint64_t key, bool nontrivial) {
        evaluations++;
        (*cur_evals)++;
        if (nontrivial) { if (distinct.size() < DISTINCT_CAP) distinct.insert(mix64(key, cur_salt)); else nontrivial_untracked++; }
    }
    void cls(const std::string &name, uint64_t n = 1) { classes[name] += n; }
    bool want_sample() {
        uint64_t n = *cur_evals;
        if (n <= 1) return true;
        // powers of 7-ish so samples are spread over the run
        return (n == 50 || n == 2000 || n == 60000);
    }
    void sample(const KV &kv) { if (samples.size() < 400) samples.push_back(cur_sub + ": " + kv.brief()); }
    void fail(const KV &kv, const std::string &msg);
};

struct Sub {
    const char *name;
    std::function<void(Ctx &)> explore;
    std::function<bool(const KV &, std::string &)> replay;   // true = property held
};

// ---------------------------------------------------------------- crash journaling
// The case about to run is registered as a thunk; if the process dies inside the library
// (signal, sanitizer abort) the death handler writes it out as a replay file.
struct InFlight {
    KV (*thunk)(const void *) = nullptr;
    const void *obj = nullptr;
    const std::string *sub = nullptr;
    std::string dir;
    bool active = false;
};
inline InFlight &inflight() { static InFlight f; return f; }

inline void write_file(const std::string &path, const std::string &txt) {
    int fd = open(path.c_str(), O_WRONLY | O_CREAT | O_TRUNC, 0644);
    if (fd < 0) return;
    size_t off = 0;
    while (off < txt.size()) { ssize_t w = write(fd, txt.data() + off, txt.size() - off); if (w <= 0) break; off += (size_t) w; }
    close(fd);
}

inline void dump_inflight(const char *why) {
    static int dumping = 0;
    if (dumping) return;
    dumping = 1;
    InFlight &f = inflight();
    if (!f.active) return;
    KV kv = f.thunk(f.obj);
    std::string txt = "sub=" + *f.sub + "\n" + kv.text() + "#died=" + why + "\n";
    char name[256];
    snprintf(name, sizeof name, "%s/crash-%d.case", f.dir.c_str(), (int) getpid());
    write_file(name, txt);
    const char *m1 = "\nVH-CRASH inflight case written: ";
    (void) !write(2, m1, strlen(m1)); (void) !write(2, name, strlen(name)); (void) !write(2, "\n", 1);
}
inline void death_cb() { dump_inflight("sanitizer"); }
inline void sig_handler(int sig) {
    char why[32]; snprintf(why, sizeof why, "signal%d", sig);
    dump_inflight(why);
    signal(sig, SIG_DFL);
    raise(sig);
}
inline void install_death_hooks(const std::string &dir) {
    inflight().dir = dir;
#ifdef VH_ASAN
    __sanitizer_set_death_callback(death_cb);
    // the sanitizer runtime does not intercept abort() / ud2: a library that ends the process itself (sodium_misuse() on a legal call, a
    // failing assert) must leave the in-flight case behind as well, or the death would be reported as an infrastructure problem
    for (int s : {SIGABRT, SIGILL}) signal(s, sig_handler);
#else
    for (int s : {SIGSEGV, SIGBUS, SIGILL, SIGFPE, SIGABRT}) signal(s, sig_handler);
#endif
}
template <class C> KV kv_thunk(const void *p) { return ((const C *) p)->kv(); }
struct Guard {   // RAII: marks a case (any struct with a kv() method) as in flight; sub and c must outlive the guard
    template <class C> Guard(const std::string &sub, const C &c) { InFlight &i = inflight(); i.sub = &sub; i.obj = &c; i.thunk = kv_thunk<C>; i.active = true; }
    ~Guard() { inflight().active = false; }
};

inline void Ctx::fail(const KV &kv, const std::string &msg) {
    cur_failed = true;
    if (sub_failed[cur_sub]++ >= 1) return;     // first (smallest) failure per sub-property only
    Failure f; f.sub = cur_sub; f.msg = msg; f.kv = kv;
    std::string txt = "sub=" + cur_sub + "\n" + kv.text() + "#msg=" + msg + "\n";
    char name[512];
    snprintf(name, sizeof name, "%s/%s-%016llx.case", replaydir.c_str(), cur_sub.c_str(), (unsigned long long) hash_str(txt));
    write_file(name, txt);
    f.file = name;
    failures.push_back(f);
    fprintf(stderr, "VH-FAIL sub=%s msg=%s file=%s\n", cur_sub.c_str(), msg.c_str(), name);
}

// ---------------------------------------------------------------- exact-size buffers
// A buffer of exactly n bytes at a chosen misalignment whose surroundings are ASan-poisoned, so a one-byte
// over-read/over-write (any alignment) or under-run (down to 8-byte granularity) is reported.
struct XBuf {
    uint8_t *base, *p; size_t n, total; bool pooled; unsigned slot_idx = 0; int gmode = 0;
    enum { SLOT = 8192, NSLOT = 24, PAD = 64, GPAGE = 4096, GREGION = SLOT + 2 * GPAGE };
    static uint8_t *&pool() { static thread_local uint8_t *p_ = nullptr; return p_; }
    static bool *used() { static thread_local bool u[NSLOT]; return u; }
    static unsigned &next() { static thread_local unsigned n_ = 0; return n_; }
    // guard mode: 0 = ASan-poisoned surroundings (default); 1 = the buffer ends at a PROT_NONE page; 2 = it starts right after one.
    // Hardware guards also catch accesses made by hand-written / inline assembly, which ASan does not instrument.
    static int &guard_mode() { static thread_local int g_ = 0; return g_; }
    static uint8_t *&gpool() { static thread_local uint8_t *p_ = nullptr; return p_; }
    static bool *gused() { static thread_local bool u[NSLOT]; return u; }
    static uint8_t *map_guarded(size_t data) {       // [guard page][data][guard page]
        uint8_t *m = (uint8_t *) mmap(nullptr, data + 2 * GPAGE, PROT_READ | PROT_WRITE, MAP_PRIVATE | MAP_ANONYMOUS, -1, 0);
        if (m == (uint8_t *) MAP_FAILED) { fprintf(stderr, "VH-INFRA mmap failed\n"); _exit(2); }
        mprotect(m, GPAGE, PROT_NONE); mprotect(m + GPAGE + data, GPAGE, PROT_NONE);
        return m;
    }
    XBuf(size_t n_, size_t align = 0, int fill = 0xa5) : n(n_) {
        gmode = guard_mode();
        if (gmode) {
            pooled = false; base = nullptr; total = (n + GPAGE - 1) / GPAGE * GPAGE; if (total == 0) total = GPAGE;
            if (total <= SLOT) {
                if (!gpool()) { gpool() = (uint8_t *) mmap(nullptr, (size_t) GREGION * NSLOT, PROT_READ | PROT_WRITE, MAP_PRIVATE | MAP_ANONYMOUS, -1, 0);
                                if (gpool() == (uint8_t *) MAP_FAILED) { fprintf(stderr, "VH-INFRA mmap failed\n"); _exit(2); }
                                for (unsigned s = 0; s < NSLOT; s++) { mprotect(gpool() + (size_t) GREGION * s, GPAGE, PROT_NONE); mprotect(gpool() + (size_t) GREGION * s + GPAGE + SLOT, GPAGE, PROT_NONE); } }
                for (unsigned s = 0; s < NSLOT; s++) if (!gused()[s]) { gused()[s] = true; pooled = true; slot_idx = s; base = gpool() + (size_t) GREGION * s; total = SLOT; break; }
            }
            if (!pooled) base = map_guarded(total);
            p = gmode == 1 ? base + GPAGE + total - n : base + GPAGE;
            if (fill >= 0 && n) memset(p, fill, n);
            return;
        }
        if (!pool()) { pool() = (uint8_t *) aligned_alloc(64, (size_t) SLOT * NSLOT); memset(pool(), 0, (size_t) SLOT * NSLOT); }
        total = n + 2 * PAD + 64;
        pooled = false; base = nullptr;
        if (total <= SLOT) {
            for (unsigned k = 0; k < NSLOT; k++) {           // next free slot (a slot stays reserved while its XBuf lives)
                unsigned s = (next()++) % NSLOT;
                if (!used()[s]) { used()[s] = true; pooled = true; slot_idx = s; base = pool() + (size_t) SLOT * s; break; }
            }
        }
        if (!pooled) base = (uint8_t *) aligned_alloc(64, (total + 63) / 64 * 64);
        p = base + PAD + (align % 64);
        if (fill >= 0) memset(p, fill, n);
#ifdef VH_ASAN
        __asan_poison_memory_region(base, (size_t)(p - base));
        __asan_poison_memory_region(p + n, (size_t)(base + total - (p + n)));
#endif
    }
    XBuf(const Bytes &v, size_t align = 0) : XBuf(v.size(), align, -1) { if (n) memcpy(p, v.data(), n); }
    XBuf(const XBuf &) = delete;
    XBuf &operator=(const XBuf &) = delete;
    Bytes get() const { return Bytes(p, p + n); }
    uint8_t *ptr_or_null() const { return n ? p : nullptr; }
    ~XBuf() {
        if (gmode) { if (pooled) gused()[slot_idx] = false; else munmap(base, total + 2 * GPAGE); return; }
#ifdef VH_ASAN
        __asan_unpoison_memory_region(base, total);
#endif
        if (!pooled) free(base); else used()[slot_idx] = false;
    }
};

// run one typed case: journals it for crash replay, counts it, samples it, records the first failure
template <class C>
inline bool exec_case(Ctx &ctx, const C &c, bool (*run)(const C &, std::string &), uint64_t key, bool nontrivial) {
    if (ctx.failed()) return false;
    std::string msg;
    bool ok;
    { Guard g(ctx.cur_sub, c); ok = run(c, msg); }
    ctx.count(key, nontrivial);
    if (ctx.want_sample()) ctx.sample(c.kv());
    if (!ok) ctx.fail(c.kv(), msg);
    return ok;
}

// length mixture used by sampled (non-enumerated) generators
inline size_t pick_len(Rng &r, size_t maxlen) {
    static const size_t edges[] = { 0, 1, 15, 16, 17, 31, 32, 33, 63, 64, 65, 111, 112, 113, 127, 128, 129, 223, 224, 225, 255, 256, 257, 511, 512, 513, 1023, 1024, 1025 };
    switch (r.below(4)) {
    case 0: { size_t e = edges[r.below(sizeof edges / sizeof edges[0])]; return e <= maxlen ? e : maxlen; }
    case 1: return r.below(std::min<size_t>(maxlen, 80) + 1);
    default: return r.below(maxlen + 1);
    }
}

// ---------------------------------------------------------------- CPU masks
enum { F_SSE2 = 1, F_SSE3 = 2, F_SSSE3 = 4, F_SSE41 = 8, F_AVX = 16, F_AVX2 = 32, F_AVX512F = 64,
       F_PCLMUL = 128, F_AESNI = 256, F_RDRAND = 512, F_ALL = 1023 };

struct Mask { unsigned long mask; std::string name; };

unsigned long detected_features();   // defined in vh_main.hpp (needs sodium headers)
std::vector<Mask> mask_set(bool with_aes_axis);
void set_mask(unsigned long m);

}  // namespace vh
