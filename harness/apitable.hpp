// apitable.hpp -- one small driver per public libsodium function (family): generates in-contract arguments from a
// deterministic stream, calls the function on exact-size ASan-poisoned buffers at chosen alignments, and folds every
// output and return code into a digest.  Shared by C10 (configuration independence), C12 (memory safety), C19
// (concurrent workloads).  Entries are deterministic functions of (seed, length policy): no entry consumes randomness
// from the library's random source.
#pragma once
#include "vh.hpp"
#include <sodium.h>
#include <memory>
#include <errno.h>

namespace api {
using vh::Bytes; using vh::XBuf; using vh::Rng;

// NOTE on evaluation order: C++ leaves the order in which the arguments of one call are evaluated unspecified (clang goes left to
// right, gcc right to left).  A driver must be a pure function of (seed, lengths) in EVERY compiler, because C10 compares digests
// across clang and gcc builds.  Therefore: buffer alignments come from their own stream (allocating a buffer never disturbs the data
// stream), the output buffers enter the digest through an order-independent sum, and no full expression contains more than one draw
// from the data stream `r` (tools: /verif/tools/evalorder.py lists offenders).
struct Ctx {
    Rng r; Rng ra;
    std::vector<size_t> fixed_lens; size_t li = 0; size_t maxlen = 1100;
    bool misalign = true; bool allow_null = true; bool tamper_inputs = true;
    std::vector<std::unique_ptr<XBuf>> bufs; std::vector<XBuf *> outs;
    uint64_t digest = 0x243f6a8885a308d3ULL; int calls = 0;
    explicit Ctx(uint64_t seed) : r(seed), ra(seed ^ 0xa11c0de5a11c0de5ULL) {}
    size_t len() { if (li < fixed_lens.size()) return fixed_lens[li++]; return vh::pick_len(r, maxlen); }
    size_t len(size_t cap) { size_t l = len(); return cap ? l % (cap + 1) : 0; }
    size_t al() { return misalign ? (size_t) ra.below(16) : 0; }
    uint8_t *in(size_t n, int cls = 0) { Bytes b = r.bytes_class(n, cls); bufs.emplace_back(new XBuf(b, al())); return bufs.back()->p; }
    uint8_t *inb(const Bytes &b) { bufs.emplace_back(new XBuf(b, al())); return bufs.back()->p; }
    uint8_t *in_or_null(size_t n) { if (n == 0 && allow_null && r.coin()) return nullptr; return in(n); }    // NULL is in contract only with length 0
    uint8_t *out(size_t n) { bufs.emplace_back(new XBuf(n, al(), 0xa5)); outs.push_back(bufs.back().get()); return bufs.back()->p; }
    uint8_t *scratch(size_t n) { bufs.emplace_back(new XBuf(n, al(), 0x5a)); return bufs.back()->p; }
    template <class T> T *state() { size_t n = (sizeof(T) + 63) / 64 * 64; void *p = aligned_alloc(64, n); memset(p, 0xee, n); states.push_back(p); return (T *) p; }
    std::vector<void *> states;
    void rc(long v) { digest = vh::mix64(digest, (uint64_t) v); calls++; }
    void val(const void *p, size_t n) { digest = vh::mix64(digest, vh::hash_bytes(p, n)); }
    // for calls whose output is unspecified when they fail: the output is part of the digest only on success
    void rcv(int r, const uint8_t *p, size_t n) { rc(r); if (r == 0) val(p, n); }
    bool chance(unsigned one_in) { return r.below(one_in) == 0; }
    void tamper(uint8_t *p, size_t n) { if (tamper_inputs && n && chance(2)) p[r.below(n)] ^= (uint8_t) (1u << r.below(8)); }
    uint64_t finish() { uint64_t sum = 0; for (XBuf *o : outs) sum += vh::mix64(vh::hash_bytes(o->p, o->n), o->n); return vh::mix64(digest, sum); }
    ~Ctx() { for (void *p : states) free(p); }
};

typedef void (*Fn)(Ctx &);
struct Entry { const char *name; Fn fn; const char *covers; int cost; };    // cost: 0 cheap, 1 public-key, 2 password hashing

// ------------------------------------------------------------------------------------------------------------ AEAD
#define AEAD_ENTRIES(P, KB, NB, AB)                                                                                                              \
    static void aead_##P(Ctx &c) {                                                                                                               \
        size_t ml = c.len(), al = c.chance(4) ? c.len() : c.len(300); uint8_t *k = c.in(KB), *n = c.in(NB), *m = c.in(ml), *ad = c.in_or_null(al);                      \
        uint8_t *ct = c.out(ml + AB); unsigned long long cl = 0;                                                                                 \
        c.rc(crypto_aead_##P##_encrypt(ct, &cl, m, ml, ad, al, nullptr, n, k)); c.rc((long) cl);                                                \
        c.tamper(ct, ml + AB);                                                                                                                   \
        uint8_t *back = c.out(ml); unsigned long long bl = 0;                                                                                    \
        c.rc(crypto_aead_##P##_decrypt(back, &bl, nullptr, ct, ml + AB, ad, al, n, k)); c.rc((long) bl);                                        \
        c.rc(crypto_aead_##P##_decrypt(nullptr, nullptr, nullptr, ct, ml + AB, ad, al, n, k));                                                   \
        size_t sl = c.r.below(AB + 1); c.rc(crypto_aead_##P##_decrypt(c.out(0), &bl, nullptr, ct, sl < ml + AB ? sl : 0, ad, al, n, k));        \
    }                                                                                                                                            \
    static void aead_##P##_detached(Ctx &c) {                                                                                                    \
        size_t ml = c.len(), al = c.len(300); uint8_t *k = c.in(KB), *n = c.in(NB), *m = c.in(ml), *ad = c.in_or_null(al);                      \
        uint8_t *ct = c.out(ml), *mac = c.out(AB); unsigned long long tl = 0;                                                                    \
        c.rc(crypto_aead_##P##_encrypt_detached(ct, mac, &tl, m, ml, ad, al, nullptr, n, k)); c.rc((long) tl);                                  \
        c.tamper(mac, AB);                                                                                                                       \
        c.rc(crypto_aead_##P##_decrypt_detached(c.out(ml), nullptr, ct, ml, mac, ad, al, n, k));                                                \
        c.rc(crypto_aead_##P##_decrypt_detached(nullptr, nullptr, ct, ml, mac, ad, al, n, k));                                                  \
    }
AEAD_ENTRIES(chacha20poly1305, 32, 8, 16)
AEAD_ENTRIES(chacha20poly1305_ietf, 32, 12, 16)
AEAD_ENTRIES(xchacha20poly1305_ietf, 32, 24, 16)
AEAD_ENTRIES(aegis128l, 16, 16, 32)
AEAD_ENTRIES(aegis256, 32, 32, 32)
static void aead_aes256gcm_all(Ctx &c) {
    c.rc(crypto_aead_aes256gcm_is_available());
    if (!crypto_aead_aes256gcm_is_available()) return;
    size_t ml = c.len(), al = c.chance(3) ? c.len() : c.len(300); uint8_t *k = c.in(32), *n = c.in(12), *m = c.in(ml), *ad = c.in_or_null(al);
    uint8_t *ct = c.out(ml + 16); unsigned long long cl = 0, bl = 0, tl = 0;
    c.rc(crypto_aead_aes256gcm_encrypt(ct, &cl, m, ml, ad, al, nullptr, n, k)); c.rc((long) cl);
    auto *st = c.state<crypto_aead_aes256gcm_state>(); c.rc(crypto_aead_aes256gcm_beforenm(st, k));
    uint8_t *ct2 = c.out(ml + 16), *ct3 = c.out(ml), *mac = c.out(16), *ct4 = c.out(ml), *mac4 = c.out(16);
    c.rc(crypto_aead_aes256gcm_encrypt_afternm(ct2, &cl, m, ml, ad, al, nullptr, n, st));
    c.rc(crypto_aead_aes256gcm_encrypt_detached(ct3, mac, &tl, m, ml, ad, al, nullptr, n, k));
    c.rc(crypto_aead_aes256gcm_encrypt_detached_afternm(ct4, mac4, &tl, m, ml, ad, al, nullptr, n, st));
    c.tamper(ct, ml + 16);
    c.rc(crypto_aead_aes256gcm_decrypt(c.out(ml), &bl, nullptr, ct, ml + 16, ad, al, n, k)); c.rc((long) bl);
    c.rc(crypto_aead_aes256gcm_decrypt_afternm(c.out(ml), &bl, nullptr, ct2, ml + 16, ad, al, n, st));
    c.rc(crypto_aead_aes256gcm_decrypt_detached(c.out(ml), nullptr, ct3, ml, mac, ad, al, n, k));
    c.rc(crypto_aead_aes256gcm_decrypt_detached_afternm(c.out(ml), nullptr, ct4, ml, mac4, ad, al, n, st));
    c.rc(crypto_aead_aes256gcm_decrypt(nullptr, nullptr, nullptr, ct, ml + 16, ad, al, n, k));
    // verify-only (m == NULL) through every other form: in the detached forms nothing follows the ciphertext in memory
    c.rc(crypto_aead_aes256gcm_decrypt_afternm(nullptr, nullptr, nullptr, ct2, ml + 16, ad, al, n, st));
    c.rc(crypto_aead_aes256gcm_decrypt_detached(nullptr, nullptr, ct3, ml, mac, ad, al, n, k));
    c.rc(crypto_aead_aes256gcm_decrypt_detached_afternm(nullptr, nullptr, ct4, ml, mac4, ad, al, n, st));
}
// ------------------------------------------------------------------------------------------------------------ MACs / hashes
#define AUTH_ENTRY(P, TB, ST)                                                                                                                    \
    static void auth_##P(Ctx &c) {                                                                                                               \
        size_t ml = c.len(); uint8_t *k = c.in(32), *m = c.in_or_null(ml), *t = c.out(TB);                                                       \
        c.rc(P(t, m, ml, k)); c.rc(P##_verify(t, m, ml, k)); c.tamper(t, TB); c.rc(P##_verify(t, m, ml, k));                                    \
    }
AUTH_ENTRY(crypto_auth, 32, 0)
AUTH_ENTRY(crypto_auth_hmacsha256, 32, 0)
AUTH_ENTRY(crypto_auth_hmacsha512, 64, 0)
AUTH_ENTRY(crypto_auth_hmacsha512256, 32, 0)
AUTH_ENTRY(crypto_onetimeauth, 16, 0)
AUTH_ENTRY(crypto_onetimeauth_poly1305, 16, 0)
#define STREAMING_ENTRY(NAME, ST, INIT, UPD, FIN, OB)                                                                                            \
    static void NAME(Ctx &c) {                                                                                                                   \
        auto *st = c.state<ST>(); size_t kl = c.r.below(4) == 0 ? c.len(200) : 32; uint8_t *k = c.in(kl); (void) k; (void) kl;                   \
        c.rc(INIT); int n = 1 + (int) c.r.below(4);                                                                                              \
        for (int i = 0; i < n; i++) { size_t l = c.len(); uint8_t *p = c.in_or_null(l); c.rc(UPD); }                                             \
        uint8_t *o = c.out(OB); c.rc(FIN);                                                                                                       \
    }
STREAMING_ENTRY(hmacsha256_stream, crypto_auth_hmacsha256_state, crypto_auth_hmacsha256_init(st, k, kl), crypto_auth_hmacsha256_update(st, p, l), crypto_auth_hmacsha256_final(st, o), 32)
STREAMING_ENTRY(hmacsha512_stream, crypto_auth_hmacsha512_state, crypto_auth_hmacsha512_init(st, k, kl), crypto_auth_hmacsha512_update(st, p, l), crypto_auth_hmacsha512_final(st, o), 64)
STREAMING_ENTRY(hmacsha512256_stream, crypto_auth_hmacsha512256_state, crypto_auth_hmacsha512256_init(st, k, kl), crypto_auth_hmacsha512256_update(st, p, l), crypto_auth_hmacsha512256_final(st, o), 32)
STREAMING_ENTRY(sha256_stream, crypto_hash_sha256_state, crypto_hash_sha256_init(st), crypto_hash_sha256_update(st, p, l), crypto_hash_sha256_final(st, o), 32)
STREAMING_ENTRY(sha512_stream, crypto_hash_sha512_state, crypto_hash_sha512_init(st), crypto_hash_sha512_update(st, p, l), crypto_hash_sha512_final(st, o), 64)
static void onetimeauth_stream(Ctx &c) {
    auto *st = c.state<crypto_onetimeauth_state>(); uint8_t *k = c.in(32);
    c.rc(crypto_onetimeauth_init(st, k)); int n = 1 + (int) c.r.below(4);
    for (int i = 0; i < n; i++) { size_t l = c.len(); c.rc(crypto_onetimeauth_update(st, c.in_or_null(l), l)); }
    c.rc(crypto_onetimeauth_final(st, c.out(16)));
    auto *s2 = c.state<crypto_onetimeauth_poly1305_state>(); c.rc(crypto_onetimeauth_poly1305_init(s2, k)); size_t l = c.len(); c.rc(crypto_onetimeauth_poly1305_update(s2, c.in_or_null(l), l)); c.rc(crypto_onetimeauth_poly1305_final(s2, c.out(16)));
}
// Poly1305 with r = 1 and three blocks whose sum drives the unreduced accumulator to 2^130 - 5 + k (k = -6..8): the final
// reduction / conditional subtraction of every backend is exercised at the values random messages never produce
static void onetimeauth_carry(Ctx &c) {
    Bytes key(32, 0); key[0] = (uint8_t) (1 + c.r.below(2)); for (int i = 16; i < 32; i++) key[(size_t) i] = (uint8_t) c.r.next(); if (c.chance(3)) for (int i = 16; i < 32; i++) key[(size_t) i] = 0xff;
    // k in 0..4 puts the final accumulator into [2^130 - 5, 2^130), where the conditional subtraction of p is taken (half of the cases aim there)
    int k = c.chance(2) ? (int) c.r.below(5) : (int) c.r.below(15) - 6;
    if (c.chance(3)) {   // limb saturation: r = 1, blocks (V, 0, 0, 0); the 2^130 wrap carries into limbs that are all ones (26- and 44-bit limbs)
        int w = c.r.below(2) ? 26 : 44; int j = w == 26 ? 1 + (int) c.r.below(3) : 1; int kk = 1 + (int) c.r.below(6); bool odd = c.r.coin();
        unsigned __int128 V = ((unsigned __int128) 1 << w) - (unsigned) kk;
        for (int l = 1; l <= j; l++) V += ((unsigned __int128) 1 << (w * (l + 1))) - ((unsigned __int128) 1 << (w * l));
        if (odd && w * (j + 1) < 128) V += (unsigned __int128) 1 << (w * (j + 1));
        Bytes mm(64, 0); for (int i = 0; i < 16; i++) mm[(size_t) i] = (uint8_t) (V >> (8 * i));
        key[0] = 1;
        uint8_t *kp2 = c.inb(key), *mp2 = c.inb(mm), *tag2 = c.out(16);
        c.rc(crypto_onetimeauth(tag2, mp2, 64, kp2)); c.rc(crypto_onetimeauth_verify(tag2, mp2, 64, kp2));
        auto *st2 = c.state<crypto_onetimeauth_state>(); c.rc(crypto_onetimeauth_init(st2, kp2)); c.rc(crypto_onetimeauth_update(st2, mp2, 32)); c.rc(crypto_onetimeauth_update(st2, mp2 + 32, 32)); c.rc(crypto_onetimeauth_final(st2, c.out(16)));
        return;
    }
    Bytes m(48, 0); m[15] = 0x80; for (int i = 17; i < 31; i++) m[(size_t) i] = 0xff; m[16] = 0xf0; m[31] = 0x7f; m[32] = (uint8_t) (11 + k);
    if (key[0] == 2) { /* r = 2 doubles the accumulator each block: still a carry-heavy input, different target */ }
    size_t tail = c.chance(2) ? 0 : c.r.below(20);       // a tail moves the accumulator away from the solved value: half of the cases have none
    Bytes t = c.r.bytes(tail); m.insert(m.end(), t.begin(), t.end());
    if (c.chance(2)) { Bytes sh; for (int blk : { 2, 0, 1 }) sh.insert(sh.end(), m.begin() + 16 * blk, m.begin() + 16 * blk + 16); sh.insert(sh.end(), t.begin(), t.end()); m = sh; }
    uint8_t *kp = c.inb(key), *mp = c.inb(m), *tag = c.out(16);
    c.rc(crypto_onetimeauth(tag, mp, m.size(), kp)); c.rc(crypto_onetimeauth_verify(tag, mp, m.size(), kp));
    auto *st = c.state<crypto_onetimeauth_state>(); c.rc(crypto_onetimeauth_init(st, kp)); c.rc(crypto_onetimeauth_update(st, mp, 16)); c.rc(crypto_onetimeauth_update(st, mp + 16, m.size() - 16)); c.rc(crypto_onetimeauth_final(st, c.out(16)));
}
static void hash_oneshot(Ctx &c) { size_t l = c.len(); uint8_t *m = c.in_or_null(l); c.rc(crypto_hash_sha256(c.out(32), m, l)); c.rc(crypto_hash_sha512(c.out(64), m, l)); c.rc(crypto_hash(c.out(64), m, l)); }
static void generichash_all(Ctx &c) {
    size_t l = c.len(), ol = 1 + c.r.below(64), kl = c.r.coin() ? 0 : 1 + c.r.below(64); uint8_t *m = c.in_or_null(l), *k = kl ? c.in(kl) : nullptr;
    c.rc(crypto_generichash(c.out(ol), ol, m, l, k, kl)); c.rc(crypto_generichash_blake2b(c.out(ol), ol, m, l, k, kl));
    uint8_t *salt = c.r.coin() ? c.in(16) : nullptr, *pers = c.r.coin() ? c.in(16) : nullptr;
    c.rc(crypto_generichash_blake2b_salt_personal(c.out(ol), ol, m, l, k, kl, salt, pers));
    auto *st = c.state<crypto_generichash_state>(); c.rc(crypto_generichash_init(st, k, kl, ol)); size_t l2 = c.len(); c.rc(crypto_generichash_update(st, m, l)); c.rc(crypto_generichash_update(st, c.in_or_null(l2), l2)); c.rc(crypto_generichash_final(st, c.out(ol), ol));
    auto *s2 = c.state<crypto_generichash_blake2b_state>(); c.rc(crypto_generichash_blake2b_init(s2, k, kl, ol)); c.rc(crypto_generichash_blake2b_update(s2, m, l)); c.rc(crypto_generichash_blake2b_final(s2, c.out(ol), ol));
    auto *s3 = c.state<crypto_generichash_blake2b_state>(); c.rc(crypto_generichash_blake2b_init_salt_personal(s3, k, kl, ol, salt, pers)); c.rc(crypto_generichash_blake2b_update(s3, m, l)); c.rc(crypto_generichash_blake2b_final(s3, c.out(ol), ol));
}
static void shorthash_all(Ctx &c) { size_t l = c.len(); uint8_t *m = c.in_or_null(l), *k = c.in(16); c.rc(crypto_shorthash(c.out(8), m, l, k)); c.rc(crypto_shorthash_siphash24(c.out(8), m, l, k)); c.rc(crypto_shorthash_siphashx24(c.out(16), m, l, k)); }
static void kdf_all(Ctx &c) {
    size_t sl = 16 + c.r.below(49); uint8_t *key = c.in(32), *cx = c.in(8); uint64_t id = c.r.next();
    c.rc(crypto_kdf_derive_from_key(c.out(sl), sl, id, (const char *) cx, key)); c.rc(crypto_kdf_blake2b_derive_from_key(c.out(sl), sl, id, (const char *) cx, key));
    size_t saltl = c.len(200), ikml = c.len(); uint8_t *salt = c.in_or_null(saltl), *ikm = c.in(ikml), *prk = c.out(32), *prk5 = c.out(64);
    c.rc(crypto_kdf_hkdf_sha256_extract(prk, salt, saltl, ikm, ikml)); c.rc(crypto_kdf_hkdf_sha512_extract(prk5, salt, saltl, ikm, ikml));
    size_t ol = c.r.below(4) == 0 ? c.r.below(255 * 32 + 1) : c.len(400), cl = c.len(100); uint8_t *cxx = c.in_or_null(cl);
    c.rc(crypto_kdf_hkdf_sha256_expand(c.out(ol), ol, (const char *) cxx, cl, prk)); c.rc(crypto_kdf_hkdf_sha512_expand(c.out(ol), ol, (const char *) cxx, cl, prk5));
    auto *st = c.state<crypto_kdf_hkdf_sha256_state>(); c.rc(crypto_kdf_hkdf_sha256_extract_init(st, salt, saltl)); c.rc(crypto_kdf_hkdf_sha256_extract_update(st, ikm, ikml)); c.rc(crypto_kdf_hkdf_sha256_extract_final(st, c.out(32)));
    auto *s5 = c.state<crypto_kdf_hkdf_sha512_state>(); c.rc(crypto_kdf_hkdf_sha512_extract_init(s5, salt, saltl)); c.rc(crypto_kdf_hkdf_sha512_extract_update(s5, ikm, ikml)); c.rc(crypto_kdf_hkdf_sha512_extract_final(s5, c.out(64)));
}
// ------------------------------------------------------------------------------------------------------------ streams / cores
#define STREAM_ENTRY(P, NB)                                                                                                                      \
    static void stream_##P(Ctx &c) { size_t l = c.len(); uint8_t *k = c.in(32), *n = c.in(NB), *m = c.in(l);                                    \
        c.rc(crypto_stream_##P(c.out(l), l, n, k)); c.rc(crypto_stream_##P##_xor(c.out(l), m, l, n, k)); }
STREAM_ENTRY(salsa2012, 8)
STREAM_ENTRY(salsa208, 8)
#define STREAM_IC_ENTRY(P, NB, ICT)                                                                                                              \
    static void stream_##P(Ctx &c) { size_t l = c.len(); uint8_t *k = c.in(32), *n = c.in(NB), *m = c.in(l);                                    \
        uint64_t ic = c.r.below(3) == 0 ? 0xfffffff0ULL + c.r.below(32) : (c.r.below(3) == 0 ? c.r.next() : c.r.below(100));                    \
        /* the 2^32 carry placed where a vector stride (4 or 8 blocks) or the tail after it begins */                                            \
        if (c.r.below(2) == 0) { uint64_t stride = c.r.below(2) ? 4 : 8, full = (l / 64) / stride * stride; uint64_t hi = c.r.below(4); uint64_t back = c.r.below(2) ? full : 0; if (!back) back = c.r.below(full + 1); uint64_t jit = c.r.below(4); jit = jit < 2 ? 1 : (jit == 2 ? 0 : 2); ic = 0x100000000ULL * hi - back + jit - 1; } \
        if (sizeof(ICT) == 4) { uint64_t blocks = (l + 63) / 64; ic &= 0xffffffffULL; if (ic + blocks > 0x100000000ULL) ic = 0x100000000ULL - blocks; if (ic > 0xffffffffULL) ic = 0; }  \
        c.rc(crypto_stream_##P(c.out(l), l, n, k)); c.rc(crypto_stream_##P##_xor(c.out(l), m, l, n, k)); c.rc(crypto_stream_##P##_xor_ic(c.out(l), m, l, n, (ICT) ic, k)); }
STREAM_IC_ENTRY(chacha20, 8, uint64_t)
STREAM_IC_ENTRY(chacha20_ietf, 12, uint32_t)
STREAM_IC_ENTRY(xchacha20, 24, uint64_t)
STREAM_IC_ENTRY(salsa20, 8, uint64_t)
STREAM_IC_ENTRY(xsalsa20, 24, uint64_t)
static void stream_default(Ctx &c) { size_t l = c.len(); uint8_t *k = c.in(32), *n = c.in(24), *m = c.in(l); c.rc(crypto_stream(c.out(l), l, n, k)); c.rc(crypto_stream_xor(c.out(l), m, l, n, k)); }
static void core_all(Ctx &c) {
    uint8_t *in = c.in(16), *k = c.in(32), *cst = c.r.coin() ? c.in(16) : nullptr;
    c.rc(crypto_core_hchacha20(c.out(32), in, k, cst)); c.rc(crypto_core_hsalsa20(c.out(32), in, k, cst)); c.rc(crypto_core_salsa20(c.out(64), in, k, cst));
    c.rc(crypto_core_salsa2012(c.out(64), in, k, cst)); c.rc(crypto_core_salsa208(c.out(64), in, k, cst));
}
static void randombytes_det(Ctx &c) { size_t l = c.len(); randombytes_buf_deterministic(c.out(l), l, c.in(32)); c.rc(0); }
// ------------------------------------------------------------------------------------------------------------ secretbox / box
#define SBOX_ENTRY(P)                                                                                                                            \
    static void sbox_##P(Ctx &c) { size_t l = c.len(); uint8_t *k = c.in(32), *n = c.in(24), *m = c.in(l), *ct = c.out(l + 16), *cd = c.out(l), *mac = c.out(16); \
        c.rc(P##_easy(ct, m, l, n, k)); c.rc(P##_detached(cd, mac, m, l, n, k)); c.tamper(ct, l + 16);                                          \
        c.rc(P##_open_easy(c.out(l), ct, l + 16, n, k)); c.rc(P##_open_detached(c.out(l), cd, mac, l, n, k));                                   \
        size_t sl = c.r.below(17); c.rc(P##_open_easy(c.out(0), ct, sl <= l + 16 ? sl : 0, n, k)); }
SBOX_ENTRY(crypto_secretbox)
SBOX_ENTRY(crypto_secretbox_xchacha20poly1305)
static void sbox_nacl(Ctx &c) {
    size_t l = c.len(); Bytes zm(32 + l, 0); for (size_t i = 0; i < l; i++) zm[32 + i] = (uint8_t) c.r.next();
    uint8_t *k = c.in(32), *n = c.in(24), *m = c.inb(zm), *ct = c.out(l + 32), *ct2 = c.out(l + 32);
    c.rc(crypto_secretbox(ct, m, l + 32, n, k)); c.rc(crypto_secretbox_xsalsa20poly1305(ct2, m, l + 32, n, k));
    if (l + 32 > 16) c.tamper(ct + 16, l + 16);
    c.rc(crypto_secretbox_open(c.out(l + 32), ct, l + 32, n, k)); c.rc(crypto_secretbox_xsalsa20poly1305_open(c.out(l + 32), ct2, l + 32, n, k));
    size_t sl = c.r.below(32); c.rc(crypto_secretbox_open(c.out(sl), ct, sl, n, k));
}
#define BOX_ENTRY(P, TAG)                                                                                                                        \
    static void box_##TAG(Ctx &c) { size_t l = c.len(); uint8_t *s1 = c.in(32), *s2 = c.in(32), *pk1 = c.out(32), *sk1 = c.out(32), *pk2 = c.out(32), *sk2 = c.out(32), *n = c.in(24), *m = c.in(l); \
        c.rc(P##_seed_keypair(pk1, sk1, s1)); c.rc(P##_seed_keypair(pk2, sk2, s2));                                                             \
        uint8_t *ct = c.out(l + 16), *cd = c.out(l), *mac = c.out(16), *k = c.out(32);                                                           \
        c.rc(P##_easy(ct, m, l, n, pk2, sk1)); c.rc(P##_detached(cd, mac, m, l, n, pk2, sk1)); c.rc(P##_beforenm(k, pk2, sk1));                  \
        c.rc(P##_easy_afternm(c.out(l + 16), m, l, n, k)); c.rc(P##_detached_afternm(c.out(l), c.out(16), m, l, n, k));                         \
        c.tamper(ct, l + 16);                                                                                                                    \
        c.rc(P##_open_easy(c.out(l), ct, l + 16, n, pk1, sk2)); c.rc(P##_open_detached(c.out(l), cd, mac, l, n, pk1, sk2));                     \
        c.rc(P##_open_easy_afternm(c.out(l), ct, l + 16, n, k)); c.rc(P##_open_detached_afternm(c.out(l), cd, mac, l, n, k));                   \
        uint8_t low[32] = { 0 }; low[0] = (uint8_t) c.r.below(2); { uint8_t *q = c.scratch(32); c.rcv(P##_beforenm(q, low, sk1), q, 32); }                                      \
        uint8_t *sealed = c.scratch(l + 48); (void) sealed; }
BOX_ENTRY(crypto_box, xsalsa)
BOX_ENTRY(crypto_box_curve25519xchacha20poly1305, xchacha)
static void box_nacl(Ctx &c) {
    size_t l = c.len(); Bytes zm(32 + l, 0); for (size_t i = 0; i < l; i++) zm[32 + i] = (uint8_t) c.r.next();
    uint8_t *s1 = c.in(32), *s2 = c.in(32), *pk1 = c.out(32), *sk1 = c.out(32), *pk2 = c.out(32), *sk2 = c.out(32), *n = c.in(24), *m = c.inb(zm), *k = c.out(32);
    c.rc(crypto_box_curve25519xsalsa20poly1305_seed_keypair(pk1, sk1, s1)); c.rc(crypto_box_seed_keypair(pk2, sk2, s2)); c.rc(crypto_box_curve25519xsalsa20poly1305_beforenm(k, pk2, sk1));
    uint8_t *ct = c.out(l + 32), *ct2 = c.out(l + 32);
    c.rc(crypto_box(ct, m, l + 32, n, pk2, sk1)); c.rc(crypto_box_afternm(ct2, m, l + 32, n, k));
    c.rc(crypto_box_curve25519xsalsa20poly1305(c.out(l + 32), m, l + 32, n, pk2, sk1)); c.rc(crypto_box_curve25519xsalsa20poly1305_afternm(c.out(l + 32), m, l + 32, n, k));
    c.tamper(ct + 16, l + 16);
    c.rc(crypto_box_open(c.out(l + 32), ct, l + 32, n, pk1, sk2)); c.rc(crypto_box_open_afternm(c.out(l + 32), ct2, l + 32, n, k));
    c.rc(crypto_box_curve25519xsalsa20poly1305_open(c.out(l + 32), ct, l + 32, n, pk1, sk2)); c.rc(crypto_box_curve25519xsalsa20poly1305_open_afternm(c.out(l + 32), ct2, l + 32, n, k));
}
static void box_seal_open_garbage(Ctx &c) {    // seal itself needs randomness; seal_open on attacker bytes is deterministic
    size_t l = c.len(); uint8_t *s = c.in(32), *pk = c.out(32), *sk = c.out(32); c.rc(crypto_box_seed_keypair(pk, sk, s));
    uint8_t *ct = c.in(l); size_t ml = l >= 48 ? l - 48 : 0;
    c.rc(crypto_box_seal_open(c.out(ml), ct, l, pk, sk)); c.rc(crypto_box_curve25519xchacha20poly1305_seal_open(c.out(ml), ct, l, pk, sk));
}
// ------------------------------------------------------------------------------------------------------------ secretstream
static void secretstream_all(Ctx &c) {
    auto *push = c.state<crypto_secretstream_xchacha20poly1305_state>(), *pull = c.state<crypto_secretstream_xchacha20poly1305_state>();
    uint8_t *k = c.in(32); Bytes hdr = c.r.bytes(24);
    // init_push draws its header from the random source: initialise through init_pull with a generated header instead (same state)
    uint8_t *h = c.inb(hdr); c.rc(crypto_secretstream_xchacha20poly1305_init_pull(push, h, k)); c.rc(crypto_secretstream_xchacha20poly1305_init_pull(pull, h, k));
    int n = 1 + (int) c.r.below(3);
    for (int i = 0; i < n; i++) {
        size_t l = c.len(), al = c.len(80); uint8_t *m = c.in(l), *ad = c.in_or_null(al), *ct = c.out(l + 17); unsigned long long cl = 0, ml = 0; unsigned char tag = 0;
        c.rc(crypto_secretstream_xchacha20poly1305_push(push, ct, &cl, m, l, ad, al, (unsigned char) c.r.below(4))); c.rc((long) cl);
        if (c.chance(4)) { crypto_secretstream_xchacha20poly1305_rekey(push); crypto_secretstream_xchacha20poly1305_rekey(pull); }
        bool bad = c.chance(3); if (bad) { Bytes junk(ct, ct + l + 17); junk[c.r.below(junk.size())] ^= 1; c.rc(crypto_secretstream_xchacha20poly1305_pull(pull, c.out(l), &ml, &tag, c.inb(junk), l + 17, ad, al)); c.rc(tag); }
        c.rc(crypto_secretstream_xchacha20poly1305_pull(pull, c.out(l), &ml, &tag, ct, l + 17, ad, al)); c.rc((long) ml); c.rc(tag);
    }
    size_t sl = c.r.below(17); c.rc(crypto_secretstream_xchacha20poly1305_pull(pull, c.out(0), nullptr, nullptr, c.in(sl), sl, nullptr, 0));
    c.val(push, sizeof *push); c.val(pull, sizeof *pull);
}
// ------------------------------------------------------------------------------------------------------------ public-key: scalarmult, sign, kx, core
// X25519 input points: random, zero, the low-order encodings (with and without the ignored top bit), non-canonical u >= p,
// sparse strings of 0x00 / 0x80 bytes -- the inputs on which the backends' input screening and output checks could disagree
static Bytes x25519_point(Ctx &c) {
    static const char *LOW[] = { "0000000000000000000000000000000000000000000000000000000000000000", "0100000000000000000000000000000000000000000000000000000000000000",
        "e0eb7a7c3b41b8ae1656e3faf19fc46ada098deb9c32b1fd866205165f49b800", "5f9c95bca3508c24b1d0b1559c83ef5b04445cc4581c8e86d8224eddd09f1157",
        "ecffffffffffffffffffffffffffffffffffffffffffffffffffffffffffff7f", "edffffffffffffffffffffffffffffffffffffffffffffffffffffffffffff7f", "eeffffffffffffffffffffffffffffffffffffffffffffffffffffffffffff7f" };
    Bytes b(32);
    switch (c.r.below(8)) {
    case 4: break;
    case 5: { const char *h = LOW[c.r.below(7)]; for (int i = 0; i < 32; i++) { unsigned v; sscanf(h + 2 * i, "%2x", &v); b[(size_t) i] = (uint8_t) v; } if (c.r.below(2)) b[31] |= 0x80;
              if (c.r.below(3) == 0) { b[31] = (uint8_t) c.r.next(); if (c.r.below(2)) b[30] = (uint8_t) c.r.next(); }      // starts like a low-order encoding, is none
              break; }
    case 6: for (auto &x : b) x = c.r.below(3) == 0 ? 0x80 : 0x00; if (c.r.below(2)) b[0] |= 1; break;
    case 7: std::fill(b.begin(), b.end(), 0xff); b[31] = c.r.below(2) ? 0x7f : 0xff; b[0] = (uint8_t) (0xed + c.r.below(19)) ; if (c.r.below(3) == 0) b[0] = (uint8_t) (0xec - c.r.below(3)); break;
    default: c.r.fill(b.data(), 32); break;
    }
    return b;
}
static void scalarmult_all(Ctx &c) {
    uint8_t *n = c.in(32), *p = c.inb(x25519_point(c));
    uint8_t *q = c.scratch(32);
    c.rcv(crypto_scalarmult(q, n, p), q, 32); c.rcv(crypto_scalarmult_curve25519(q, n, p), q, 32); c.rcv(crypto_scalarmult_base(q, n), q, 32); c.rcv(crypto_scalarmult_curve25519_base(q, n), q, 32);
}
static void kx_all(Ctx &c) {
    uint8_t *s1 = c.in(32), *s2 = c.in(32), *cpk = c.out(32), *csk = c.out(32), *spk = c.out(32), *ssk = c.out(32);
    c.rc(crypto_kx_seed_keypair(cpk, csk, s1)); c.rc(crypto_kx_seed_keypair(spk, ssk, s2));
    c.rc(crypto_kx_client_session_keys(c.out(32), c.out(32), cpk, csk, spk)); c.rc(crypto_kx_server_session_keys(c.out(32), c.out(32), spk, ssk, cpk));
    c.rc(crypto_kx_client_session_keys(c.out(32), nullptr, cpk, csk, spk)); c.rc(crypto_kx_server_session_keys(nullptr, c.out(32), spk, ssk, cpk));
}
static void sign_all(Ctx &c) {
    size_t l = c.len(); uint8_t *seed = c.in(32), *pk = c.out(32), *sk = c.out(64), *m = c.in_or_null(l);
    c.rc(crypto_sign_seed_keypair(pk, sk, seed)); c.rc(crypto_sign_ed25519_seed_keypair(c.out(32), c.out(64), seed));
    uint8_t *sig = c.out(64), *sm = c.out(l + 64); unsigned long long sl = 0, sml = 0, ml = 0;
    c.rc(crypto_sign_detached(sig, &sl, m, l, sk)); c.rc(crypto_sign(sm, &sml, m, l, sk)); c.rc((long) sml);
    c.rc(crypto_sign_ed25519_detached(c.out(64), nullptr, m, l, sk)); c.rc(crypto_sign_ed25519(c.out(l + 64), nullptr, m, l, sk));
    c.tamper(sig, 64); c.tamper(sm, l + 64);
    c.rc(crypto_sign_verify_detached(sig, m, l, pk)); c.rc(crypto_sign_open(c.out(l), &ml, sm, l + 64, pk)); c.rc((long) ml);
    c.rc(crypto_sign_ed25519_verify_detached(sig, m, l, pk)); c.rc(crypto_sign_ed25519_open(c.out(l), &ml, sm, l + 64, pk));
    size_t shortl = c.r.below(64); c.rc(crypto_sign_open(c.out(0), &ml, sm, shortl <= l + 64 ? shortl : 0, pk));
    auto *st = c.state<crypto_sign_state>(); c.rc(crypto_sign_init(st)); c.rc(crypto_sign_update(st, m, l)); uint8_t *sph = c.out(64); c.rc(crypto_sign_final_create(st, sph, &sl, sk));
    c.rc(crypto_sign_init(st)); c.rc(crypto_sign_update(st, m, l)); c.tamper(sph, 64); c.rc(crypto_sign_final_verify(st, sph, pk));
    auto *s2 = c.state<crypto_sign_ed25519ph_state>(); c.rc(crypto_sign_ed25519ph_init(s2)); c.rc(crypto_sign_ed25519ph_update(s2, m, l)); c.rc(crypto_sign_ed25519ph_final_create(s2, c.out(64), nullptr, sk));
    c.rc(crypto_sign_ed25519ph_init(s2)); c.rc(crypto_sign_ed25519ph_update(s2, m, l)); c.rc(crypto_sign_ed25519ph_final_verify(s2, sph, pk));
    c.rc(crypto_sign_ed25519_sk_to_seed(c.out(32), sk)); c.rc(crypto_sign_ed25519_sk_to_pk(c.out(32), sk));
    c.rc(crypto_sign_ed25519_pk_to_curve25519(c.out(32), pk)); c.rc(crypto_sign_ed25519_sk_to_curve25519(c.out(32), sk));
    { uint8_t *q = c.scratch(32); c.rcv(crypto_sign_ed25519_pk_to_curve25519(q, c.in(32)), q, 32); }
}
static void core_ed25519_all(Ctx &c) {
    uint8_t *n = c.in(32), *g = c.scratch(32), *h = c.out(32), *u = c.in(32);
    c.rcv(crypto_scalarmult_ed25519_base_noclamp(g, n), g, 32); c.rc(crypto_core_ed25519_from_uniform(h, u));
    uint8_t *junk = c.in(32);
    uint8_t *q = c.scratch(32);
    for (uint8_t *p : { g, h, junk }) { c.rc(crypto_core_ed25519_is_valid_point(p)); c.rcv(crypto_core_ed25519_add(q, p, g), q, 32); c.rcv(crypto_core_ed25519_sub(q, g, p), q, 32);
        c.rcv(crypto_scalarmult_ed25519(q, n, p), q, 32); c.rcv(crypto_scalarmult_ed25519_noclamp(q, n, p), q, 32); }
    c.rcv(crypto_scalarmult_ed25519_base(q, n), q, 32);
    uint8_t *x = c.in(32), *y = c.in(32); y[31] &= 0x0f; x[31] &= 0x0f;
    crypto_core_ed25519_scalar_add(c.out(32), x, y); crypto_core_ed25519_scalar_sub(c.out(32), x, y); crypto_core_ed25519_scalar_mul(c.out(32), x, y);
    crypto_core_ed25519_scalar_negate(c.out(32), x); crypto_core_ed25519_scalar_complement(c.out(32), x); c.rc(crypto_core_ed25519_scalar_invert(c.out(32), x));
    crypto_core_ed25519_scalar_reduce(c.out(32), c.in(64)); c.rc(crypto_core_ed25519_scalar_is_canonical(c.in(32)));
    size_t ml = c.len(300), cl = c.len(80); if (c.r.below(6) == 0) cl = 255 + (size_t) c.r.below(300);      // contexts longer than 255 bytes take the "oversize DST" path
    Bytes ctx = c.r.bytes(cl); for (auto &b : ctx) if (!b) b = 1; ctx.push_back(0);
    const char *cp = cl == 0 && c.r.coin() ? nullptr : (const char *) c.inb(ctx); uint8_t *msg = c.in_or_null(ml);
    for (int alg : { 1, 2 }) { c.rc(crypto_core_ed25519_from_string(c.out(32), cp, msg, ml, alg)); c.rc(crypto_core_ed25519_from_string_ro(c.out(32), cp, msg, ml, alg)); }
}
static void core_ristretto_all(Ctx &c) {
    uint8_t *n = c.in(32), *g = c.scratch(32), *h = c.out(32);
    c.rcv(crypto_scalarmult_ristretto255_base(g, n), g, 32); c.rc(crypto_core_ristretto255_from_hash(h, c.in(64)));
    uint8_t *junk = c.in(32);
    uint8_t *q = c.scratch(32);
    for (uint8_t *p : { g, h, junk }) { c.rc(crypto_core_ristretto255_is_valid_point(p)); c.rcv(crypto_core_ristretto255_add(q, p, g), q, 32); c.rcv(crypto_core_ristretto255_sub(q, g, p), q, 32); c.rcv(crypto_scalarmult_ristretto255(q, n, p), q, 32); }
    uint8_t *x = c.in(32), *y = c.in(32); y[31] &= 0x0f; x[31] &= 0x0f;
    crypto_core_ristretto255_scalar_add(c.out(32), x, y); crypto_core_ristretto255_scalar_sub(c.out(32), x, y); crypto_core_ristretto255_scalar_mul(c.out(32), x, y);
    crypto_core_ristretto255_scalar_negate(c.out(32), x); crypto_core_ristretto255_scalar_complement(c.out(32), x); c.rc(crypto_core_ristretto255_scalar_invert(c.out(32), x));
    crypto_core_ristretto255_scalar_reduce(c.out(32), c.in(64)); c.rc(crypto_core_ristretto255_scalar_is_canonical(c.in(32)));
    size_t ml = c.len(300), cl = c.len(80); if (c.r.below(6) == 0) cl = 255 + (size_t) c.r.below(300);
    Bytes ctx = c.r.bytes(cl); for (auto &b : ctx) if (!b) b = 1; ctx.push_back(0);
    const char *cp = (const char *) c.inb(ctx); uint8_t *msg = c.in_or_null(ml);
    for (int alg : { 1, 2 }) { c.rc(crypto_core_ristretto255_from_string(c.out(32), cp, msg, ml, alg)); c.rc(crypto_core_ristretto255_from_string_ro(c.out(32), cp, msg, ml, alg)); }
}
// ------------------------------------------------------------------------------------------------------------ utils / codecs / padding
static void verify_all(Ctx &c) {
    uint8_t *a = c.in(64), *b = c.in(64); if (c.r.coin()) memcpy(b, a, 64); if (c.chance(3)) b[c.r.below(64)] ^= 1;
    c.rc(crypto_verify_16(a, b)); c.rc(crypto_verify_32(a, b)); c.rc(crypto_verify_64(a, b));
    size_t l = c.len(200); uint8_t *x = c.in(l), *y = c.in(l); if (c.r.coin() && l) memcpy(y, x, l);
    c.rc(sodium_memcmp(x, y, l)); c.rc(sodium_compare(x, y, l)); c.rc(sodium_is_zero(x, l));
    uint8_t *z = c.out(l); if (l) memcpy(z, x, l); sodium_increment(z, l); sodium_add(z, y, l); sodium_sub(z, x, l);
    uint8_t *w = c.out(l); sodium_memzero(w, l); if (l) sodium_stackzero(l);
}
static void codecs_all(Ctx &c) {
    size_t l = c.len(300); uint8_t *bin = c.in(l);
    char *hex = (char *) c.out(2 * l + 1); sodium_bin2hex(hex, 2 * l + 1, bin, l); c.rc(0);
    size_t bl = 0; const char *end = nullptr;
    { bool ig = c.r.coin(); bool we = c.r.coin(); c.rc(sodium_hex2bin(c.out(l), l, hex, 2 * l, ig ? ": " : nullptr, &bl, we ? &end : nullptr)); }; c.rc((long) bl);
    for (int variant : { 1, 3, 5, 7 }) {
        size_t el = sodium_base64_encoded_len(l, variant); c.rc((long) el);
        char *b64 = (char *) c.out(el); sodium_bin2base64(b64, el, bin, l, variant);
        c.rc(sodium_base642bin(c.out(l), l, b64, el - 1, nullptr, &bl, nullptr, variant)); c.rc((long) bl);
    }
    // attacker-chosen text with arbitrary capacity
    size_t tl = c.len(200), cap = c.len(200); Bytes t = c.r.bytes(tl);
    static const char AL[] = "ABCDEFGHIJKLMNOPQRSTUVWXYZabcdefghijklmnopqrstuvwxyz0123456789+/-_=: \n";
    for (auto &ch : t) if (!c.chance(8)) ch = (uint8_t) AL[ch % (sizeof AL - 1)];
    uint8_t *tp = c.inb(t); const char *ign = c.r.coin() ? " \n:" : nullptr;
    c.rc(sodium_hex2bin(c.out(cap), cap, (const char *) tp, tl, ign, &bl, c.r.coin() ? &end : nullptr));
    { bool we = c.r.coin(); int variant = 1 + 2 * (int) c.r.below(4); c.rc(sodium_base642bin(c.out(cap), cap, (const char *) tp, tl, ign, &bl, we ? &end : nullptr, variant)); };
}
static void pad_all(Ctx &c) {
    size_t l = c.len(300), bs = c.chance(4) ? (size_t) 1 << c.r.below(10) : 1 + c.r.below(130), padded = (l / bs + 1) * bs, capj = c.r.below(3), cap = padded + capj - (c.chance(5) ? 1 : 0);
    if (cap < l) cap = l;
    Bytes buf = c.r.bytes(cap); uint8_t *p = c.inb(buf); c.outs.push_back(c.bufs.back().get());
    size_t pl = 0, ul = 0; int r = sodium_pad(&pl, p, l, bs, cap); c.rc(r); c.rc((long) pl);
    if (r == 0) { c.rc(sodium_unpad(&ul, p, pl, bs)); c.rc((long) ul); }
    size_t gl = c.len(300), gbs = 1 + c.r.below(64); Bytes g = c.r.bytes_class(gl, (int) c.r.below(3)); if (gl && c.r.coin()) g[gl - 1 - c.r.below(std::min<size_t>(gl, gbs))] = 0x80;
    c.rc(sodium_unpad(&ul, c.inb(g), gl, gbs));
}
// ------------------------------------------------------------------------------------------------------------ password hashing (small costs, cost-guarded strings)
static void pwhash_all(Ctx &c) {
    size_t pl = c.len(100), ol = 16 + c.r.below(100); uint8_t *pw = c.in(pl), *salt = c.in(32);
    size_t memk = c.r.below(56), mem = 8192 + 1024 * memk + c.r.below(1024);
    if (c.chance(3)) mem = 1024 * (516 + c.r.below(600));      // segment length > 128: more than one address block per segment
    c.rc(crypto_pwhash(c.out(ol), ol, (const char *) pw, pl, salt, 3, mem, crypto_pwhash_ALG_ARGON2I13)); c.rc(crypto_pwhash(c.out(ol), ol, (const char *) pw, pl, salt, 1 + c.r.below(2), mem, crypto_pwhash_ALG_ARGON2ID13));
    c.rc(crypto_pwhash_argon2i(c.out(ol), ol, (const char *) pw, pl, salt, 3, mem, 1)); c.rc(crypto_pwhash_argon2id(c.out(ol), ol, (const char *) pw, pl, salt, 1, mem, 2));
    { size_t sl_ = c.r.below(33); uint64_t N_ = (uint64_t) 1 << (1 + c.r.below(6)); uint32_t r_ = 1 + (uint32_t) c.r.below(3); uint32_t p_ = 1 + (uint32_t) c.r.below(2); c.rc(crypto_pwhash_scryptsalsa208sha256_ll(pw, pl, salt, sl_, N_, r_, p_, c.out(ol), ol)); };
    c.rc(crypto_pwhash_scryptsalsa208sha256(c.out(ol), ol, (const char *) pw, pl, salt, 32768, 1 << 16));
    // parameters every scrypt backend must refuse alike (N not a power of two or below 2, r or p zero): only the verdict is recorded
    { static const uint64_t NB[] = { 0, 1, 3, 5, 6, 12, (uint64_t) 1 << 32 }; uint8_t *junk = c.scratch(ol);
      { uint64_t Nb = NB[c.r.below(7)]; uint32_t rb = 1 + (uint32_t) c.r.below(2); c.rc(crypto_pwhash_scryptsalsa208sha256_ll(pw, pl, salt, 8, Nb, rb, 1, junk, ol)); }
      c.rc(crypto_pwhash_scryptsalsa208sha256_ll(pw, pl, salt, 8, 16, 0, 1, junk, ol)); c.rc(crypto_pwhash_scryptsalsa208sha256_ll(pw, pl, salt, 8, 16, 1, 0, junk, ol)); }
    // fixed well-formed strings (the _str producers draw a random salt, so they are not deterministic entries)
    static const char *S1 = "$argon2id$v=19$m=8,t=1,p=1$c29tZXNhbHRzb21lc2FsdA$Nf0LOcFbTX0x1h/lJ0UKzTCzQS5CKUhqpMp1QL6o8dM";
    static const char *S2 = "$argon2i$v=19$m=8,t=3,p=1$c29tZXNhbHRzb21lc2FsdA$Nf0LOcFbTX0x1h/lJ0UKzTCzQS5CKUhqpMp1QL6o8dM";
    static const char *S3 = "$7$2/..../....saltsaltsaltsaltsaltsaltsaltsaltsaltsaltsal$aaaaaaaaaaaaaaaaaaaaaaaaaaaaaaaaaaaaaaaaaa.";
    for (const char *s : { S1, S2, S3 }) {
        std::string t = s; if (c.tamper_inputs && c.r.coin()) { size_t pos = c.r.below(t.size()); static const char SUB[] = "$,=/+.09Az \x80!"; t[pos] = SUB[c.r.below(sizeof SUB - 1)]; }
        // cost guard: the mutation must not turn the cost fields into something expensive
        bool ok = true; size_t mp = t.find("m="); if (t[1] == 'a') { if (mp == std::string::npos || t.compare(mp, 5, "m=8,t") != 0 || t.find(",p=1$") == std::string::npos || (t.find("t=1,") == std::string::npos && t.find("t=3,") == std::string::npos)) ok = false; }
        else if (t.compare(0, 14, "$7$2/..../....") != 0) ok = false;
        if (!ok) { c.rc(-7); continue; }
        Bytes tz(t.begin(), t.end()); tz.push_back(0); const char *sp = (const char *) c.inb(tz);
        c.rc(crypto_pwhash_str_verify(sp, (const char *) pw, pl)); c.rc(crypto_pwhash_argon2i_str_verify(sp, (const char *) pw, pl)); c.rc(crypto_pwhash_argon2id_str_verify(sp, (const char *) pw, pl));
        c.rc(crypto_pwhash_scryptsalsa208sha256_str_verify(sp, (const char *) pw, pl));
        c.rc(crypto_pwhash_str_needs_rehash(sp, 1, 8192)); c.rc(crypto_pwhash_argon2i_str_needs_rehash(sp, 3, 8192)); c.rc(crypto_pwhash_argon2id_str_needs_rehash(sp, 1, 8192));
        c.rc(crypto_pwhash_scryptsalsa208sha256_str_needs_rehash(sp, 32768, 1 << 16));
    }
}

// Hash strings as an attacker supplies them: intact, cut to every prefix length (the length sweeps pin `cut`), one character
// substituted, or both; NUL-terminated in an exact-size buffer, so a parser that walks past the terminator is caught.
static void pwhash_strings(Ctx &c) {
    size_t cut = c.len(120), pl = c.r.below(40); uint8_t *pw = c.in(pl);
    static const char *S[] = { "$argon2id$v=19$m=8,t=1,p=1$c29tZXNhbHRzb21lc2FsdA$Nf0LOcFbTX0x1h/lJ0UKzTCzQS5CKUhqpMp1QL6o8dM", "$argon2i$v=19$m=8,t=3,p=1$c29tZXNhbHRzb21lc2FsdA$Nf0LOcFbTX0x1h/lJ0UKzTCzQS5CKUhqpMp1QL6o8dM",
                               "$7$2/..../....saltsaltsaltsaltsaltsaltsaltsaltsaltsaltsal$aaaaaaaaaaaaaaaaaaaaaaaaaaaaaaaaaaaaaaaaaa." };
    for (const char *s : S) {
        std::string t = s; int mode = (int) c.r.below(4);
        if (mode >= 2) { size_t pos = c.r.below(t.size()); static const char SUB[] = "$,=/+.09Az \x80!"; t[pos] = SUB[c.r.below(sizeof SUB - 1)]; }
        bool ok = true; size_t mp = t.find("m=");       // cost guard (before cutting: a prefix of a cheap string is cheap or malformed)
        if (t[1] == 'a') { if (mp == std::string::npos || t.compare(mp, 5, "m=8,t") != 0 || t.find(",p=1$") == std::string::npos || (t.find("t=1,") == std::string::npos && t.find("t=3,") == std::string::npos)) ok = false; }
        else if (t.compare(0, 14, "$7$2/..../....") != 0) ok = false;
        if (!ok) { c.rc(-7); continue; }
        if (mode == 1 || mode == 3) t.resize(std::min(cut, t.size()));
        Bytes tz(t.begin(), t.end()); tz.push_back(0); const char *sp = (const char *) c.inb(tz);
        c.rc(crypto_pwhash_str_verify(sp, (const char *) pw, pl)); c.rc(crypto_pwhash_argon2i_str_verify(sp, (const char *) pw, pl)); c.rc(crypto_pwhash_argon2id_str_verify(sp, (const char *) pw, pl));
        c.rc(crypto_pwhash_scryptsalsa208sha256_str_verify(sp, (const char *) pw, pl));
        c.rc(crypto_pwhash_str_needs_rehash(sp, 1, 8192)); c.rc(crypto_pwhash_argon2i_str_needs_rehash(sp, 3, 8192)); c.rc(crypto_pwhash_argon2id_str_needs_rehash(sp, 1, 8192));
        c.rc(crypto_pwhash_scryptsalsa208sha256_str_needs_rehash(sp, 32768, 1 << 16));
    }
}

// scrypt parameter screening: every backend must accept and refuse exactly the same (N, r, p); tiny valid parameters are computed too
static void scrypt_params(Ctx &c) {
    size_t pl = c.r.below(20), ol = 16 + c.r.below(17); uint8_t *pw = c.in(pl), *salt = c.in(8), *junk = c.scratch(ol);
    for (uint64_t N : { (uint64_t) 0, (uint64_t) 1, (uint64_t) 3, (uint64_t) 5, (uint64_t) 6, (uint64_t) 12, (uint64_t) 1 << 32, ((uint64_t) 1 << 32) + 2 })
        c.rc(crypto_pwhash_scryptsalsa208sha256_ll(pw, pl, salt, 8, N, 1 + (uint32_t) c.r.below(2), 1, junk, ol));
    c.rc(crypto_pwhash_scryptsalsa208sha256_ll(pw, pl, salt, 8, 16, 0, 1, junk, ol)); c.rc(crypto_pwhash_scryptsalsa208sha256_ll(pw, pl, salt, 8, 16, 1, 0, junk, ol));
    c.rc(crypto_pwhash_scryptsalsa208sha256_ll(pw, pl, salt, 8, 4, 1u << 15, 1u << 15, junk, ol));      // r * p too large
    c.rc(crypto_pwhash_scryptsalsa208sha256_ll(pw, pl, salt, 8, 2, 1, 1, c.out(ol), ol)); c.rc(crypto_pwhash_scryptsalsa208sha256_ll(pw, pl, salt, 8, 4, 2, 2, c.out(ol), ol));
    // hash strings whose N_log2 digit is outside the usable range ('.' = 0 -> N = 1, 'z' = 63)
    static const char *S[] = { "$7$./..../....saltsaltsaltsaltsaltsaltsaltsaltsaltsaltsal$aaaaaaaaaaaaaaaaaaaaaaaaaaaaaaaaaaaaaaaaaa.",
                               "$7$z/..../....saltsaltsaltsaltsaltsaltsaltsaltsaltsaltsal$aaaaaaaaaaaaaaaaaaaaaaaaaaaaaaaaaaaaaaaaaa.",
                               "$7$0/..../....saltsaltsaltsaltsaltsaltsaltsaltsaltsaltsal$aaaaaaaaaaaaaaaaaaaaaaaaaaaaaaaaaaaaaaaaaa." };
    for (const char *t : S) { Bytes tz(t, t + strlen(t) + 1); c.rc(crypto_pwhash_scryptsalsa208sha256_str_verify((const char *) c.inb(tz), (const char *) pw, pl)); }
}

// Argon2 with more than one address block per segment (segment length > 128 <=> m >= 516 KiB): the data-independent addressing
// code of every block-fill backend regenerates its address block inside a segment only from here on
static void pwhash_large(Ctx &c) {
    size_t pl = c.len(40), ol = 16 + c.r.below(50); uint8_t *pw = c.in(pl), *salt = c.in(16);
    size_t memk = c.r.below(560), mem = 1024 * (516 + memk) + c.r.below(1024);
    c.rc(crypto_pwhash(c.out(ol), ol, (const char *) pw, pl, salt, 3, mem, crypto_pwhash_ALG_ARGON2I13));
    c.rc(crypto_pwhash(c.out(ol), ol, (const char *) pw, pl, salt, 1, mem, crypto_pwhash_ALG_ARGON2ID13));
}

inline const std::vector<Entry> &table() {
    static const std::vector<Entry> T = {
        { "aead_chacha20poly1305", aead_chacha20poly1305, "crypto_aead_chacha20poly1305_encrypt crypto_aead_chacha20poly1305_decrypt", 0 },
        { "aead_chacha20poly1305_detached", aead_chacha20poly1305_detached, "crypto_aead_chacha20poly1305_encrypt_detached crypto_aead_chacha20poly1305_decrypt_detached", 0 },
        { "aead_chacha20poly1305_ietf", aead_chacha20poly1305_ietf, "crypto_aead_chacha20poly1305_ietf_encrypt crypto_aead_chacha20poly1305_ietf_decrypt", 0 },
        { "aead_chacha20poly1305_ietf_detached", aead_chacha20poly1305_ietf_detached, "crypto_aead_chacha20poly1305_ietf_encrypt_detached crypto_aead_chacha20poly1305_ietf_decrypt_detached", 0 },
        { "aead_xchacha20poly1305_ietf", aead_xchacha20poly1305_ietf, "crypto_aead_xchacha20poly1305_ietf_encrypt crypto_aead_xchacha20poly1305_ietf_decrypt", 0 },
        { "aead_xchacha20poly1305_ietf_detached", aead_xchacha20poly1305_ietf_detached, "crypto_aead_xchacha20poly1305_ietf_encrypt_detached crypto_aead_xchacha20poly1305_ietf_decrypt_detached", 0 },
        { "aead_aegis128l", aead_aegis128l, "crypto_aead_aegis128l_encrypt crypto_aead_aegis128l_decrypt", 0 },
        { "aead_aegis128l_detached", aead_aegis128l_detached, "crypto_aead_aegis128l_encrypt_detached crypto_aead_aegis128l_decrypt_detached", 0 },
        { "aead_aegis256", aead_aegis256, "crypto_aead_aegis256_encrypt crypto_aead_aegis256_decrypt", 0 },
        { "aead_aegis256_detached", aead_aegis256_detached, "crypto_aead_aegis256_encrypt_detached crypto_aead_aegis256_decrypt_detached", 0 },
        { "aead_aes256gcm", aead_aes256gcm_all, "crypto_aead_aes256gcm_is_available crypto_aead_aes256gcm_encrypt crypto_aead_aes256gcm_decrypt crypto_aead_aes256gcm_beforenm crypto_aead_aes256gcm_encrypt_afternm crypto_aead_aes256gcm_decrypt_afternm crypto_aead_aes256gcm_encrypt_detached crypto_aead_aes256gcm_decrypt_detached crypto_aead_aes256gcm_encrypt_detached_afternm crypto_aead_aes256gcm_decrypt_detached_afternm", 0 },
        { "auth", auth_crypto_auth, "crypto_auth crypto_auth_verify", 0 },
        { "auth_hmacsha256", auth_crypto_auth_hmacsha256, "crypto_auth_hmacsha256 crypto_auth_hmacsha256_verify", 0 },
        { "auth_hmacsha512", auth_crypto_auth_hmacsha512, "crypto_auth_hmacsha512 crypto_auth_hmacsha512_verify", 0 },
        { "auth_hmacsha512256", auth_crypto_auth_hmacsha512256, "crypto_auth_hmacsha512256 crypto_auth_hmacsha512256_verify", 0 },
        { "onetimeauth", auth_crypto_onetimeauth, "crypto_onetimeauth crypto_onetimeauth_verify", 0 },
        { "onetimeauth_poly1305", auth_crypto_onetimeauth_poly1305, "crypto_onetimeauth_poly1305 crypto_onetimeauth_poly1305_verify", 0 },
        { "hmacsha256_stream", hmacsha256_stream, "crypto_auth_hmacsha256_init crypto_auth_hmacsha256_update crypto_auth_hmacsha256_final", 0 },
        { "hmacsha512_stream", hmacsha512_stream, "crypto_auth_hmacsha512_init crypto_auth_hmacsha512_update crypto_auth_hmacsha512_final", 0 },
        { "hmacsha512256_stream", hmacsha512256_stream, "crypto_auth_hmacsha512256_init crypto_auth_hmacsha512256_update crypto_auth_hmacsha512256_final", 0 },
        { "sha256_stream", sha256_stream, "crypto_hash_sha256_init crypto_hash_sha256_update crypto_hash_sha256_final", 0 },
        { "sha512_stream", sha512_stream, "crypto_hash_sha512_init crypto_hash_sha512_update crypto_hash_sha512_final", 0 },
        { "onetimeauth_stream", onetimeauth_stream, "crypto_onetimeauth_init crypto_onetimeauth_update crypto_onetimeauth_final crypto_onetimeauth_poly1305_init crypto_onetimeauth_poly1305_update crypto_onetimeauth_poly1305_final", 0 },
        { "onetimeauth_carry", onetimeauth_carry, "crypto_onetimeauth crypto_onetimeauth_verify crypto_onetimeauth_init crypto_onetimeauth_update crypto_onetimeauth_final", 0 },
        { "hash", hash_oneshot, "crypto_hash crypto_hash_sha256 crypto_hash_sha512", 0 },
        { "generichash", generichash_all, "crypto_generichash crypto_generichash_init crypto_generichash_update crypto_generichash_final crypto_generichash_blake2b crypto_generichash_blake2b_salt_personal crypto_generichash_blake2b_init crypto_generichash_blake2b_init_salt_personal crypto_generichash_blake2b_update crypto_generichash_blake2b_final", 0 },
        { "shorthash", shorthash_all, "crypto_shorthash crypto_shorthash_siphash24 crypto_shorthash_siphashx24", 0 },
        { "kdf", kdf_all, "crypto_kdf_derive_from_key crypto_kdf_blake2b_derive_from_key crypto_kdf_hkdf_sha256_extract crypto_kdf_hkdf_sha256_expand crypto_kdf_hkdf_sha256_extract_init crypto_kdf_hkdf_sha256_extract_update crypto_kdf_hkdf_sha256_extract_final crypto_kdf_hkdf_sha512_extract crypto_kdf_hkdf_sha512_expand crypto_kdf_hkdf_sha512_extract_init crypto_kdf_hkdf_sha512_extract_update crypto_kdf_hkdf_sha512_extract_final", 0 },
        { "stream_chacha20", stream_chacha20, "crypto_stream_chacha20 crypto_stream_chacha20_xor crypto_stream_chacha20_xor_ic", 0 },
        { "stream_chacha20_ietf", stream_chacha20_ietf, "crypto_stream_chacha20_ietf crypto_stream_chacha20_ietf_xor crypto_stream_chacha20_ietf_xor_ic", 0 },
        { "stream_xchacha20", stream_xchacha20, "crypto_stream_xchacha20 crypto_stream_xchacha20_xor crypto_stream_xchacha20_xor_ic", 0 },
        { "stream_salsa20", stream_salsa20, "crypto_stream_salsa20 crypto_stream_salsa20_xor crypto_stream_salsa20_xor_ic", 0 },
        { "stream_salsa2012", stream_salsa2012, "crypto_stream_salsa2012 crypto_stream_salsa2012_xor", 0 },
        { "stream_salsa208", stream_salsa208, "crypto_stream_salsa208 crypto_stream_salsa208_xor", 0 },
        { "stream_xsalsa20", stream_xsalsa20, "crypto_stream_xsalsa20 crypto_stream_xsalsa20_xor crypto_stream_xsalsa20_xor_ic", 0 },
        { "stream", stream_default, "crypto_stream crypto_stream_xor", 0 },
        { "core", core_all, "crypto_core_hchacha20 crypto_core_hsalsa20 crypto_core_salsa20 crypto_core_salsa2012 crypto_core_salsa208", 0 },
        { "randombytes_buf_deterministic", randombytes_det, "randombytes_buf_deterministic", 0 },
        { "secretbox", sbox_crypto_secretbox, "crypto_secretbox_easy crypto_secretbox_detached crypto_secretbox_open_easy crypto_secretbox_open_detached", 0 },
        { "secretbox_xchacha20poly1305", sbox_crypto_secretbox_xchacha20poly1305, "crypto_secretbox_xchacha20poly1305_easy crypto_secretbox_xchacha20poly1305_detached crypto_secretbox_xchacha20poly1305_open_easy crypto_secretbox_xchacha20poly1305_open_detached", 0 },
        { "secretbox_nacl", sbox_nacl, "crypto_secretbox crypto_secretbox_open crypto_secretbox_xsalsa20poly1305 crypto_secretbox_xsalsa20poly1305_open", 0 },
        { "box", box_xsalsa, "crypto_box_seed_keypair crypto_box_easy crypto_box_detached crypto_box_beforenm crypto_box_easy_afternm crypto_box_detached_afternm crypto_box_open_easy crypto_box_open_detached crypto_box_open_easy_afternm crypto_box_open_detached_afternm", 1 },
        { "box_xchacha20", box_xchacha, "crypto_box_curve25519xchacha20poly1305_seed_keypair crypto_box_curve25519xchacha20poly1305_easy crypto_box_curve25519xchacha20poly1305_detached crypto_box_curve25519xchacha20poly1305_beforenm crypto_box_curve25519xchacha20poly1305_easy_afternm crypto_box_curve25519xchacha20poly1305_detached_afternm crypto_box_curve25519xchacha20poly1305_open_easy crypto_box_curve25519xchacha20poly1305_open_detached crypto_box_curve25519xchacha20poly1305_open_easy_afternm crypto_box_curve25519xchacha20poly1305_open_detached_afternm", 1 },
        { "box_nacl", box_nacl, "crypto_box crypto_box_afternm crypto_box_open crypto_box_open_afternm crypto_box_curve25519xsalsa20poly1305 crypto_box_curve25519xsalsa20poly1305_afternm crypto_box_curve25519xsalsa20poly1305_open crypto_box_curve25519xsalsa20poly1305_open_afternm crypto_box_curve25519xsalsa20poly1305_seed_keypair crypto_box_curve25519xsalsa20poly1305_beforenm", 1 },
        { "box_seal_open", box_seal_open_garbage, "crypto_box_seal_open crypto_box_curve25519xchacha20poly1305_seal_open", 1 },
        { "secretstream", secretstream_all, "crypto_secretstream_xchacha20poly1305_init_pull crypto_secretstream_xchacha20poly1305_push crypto_secretstream_xchacha20poly1305_pull crypto_secretstream_xchacha20poly1305_rekey", 0 },
        { "scalarmult", scalarmult_all, "crypto_scalarmult crypto_scalarmult_base crypto_scalarmult_curve25519 crypto_scalarmult_curve25519_base", 1 },
        { "kx", kx_all, "crypto_kx_seed_keypair crypto_kx_client_session_keys crypto_kx_server_session_keys", 1 },
        { "sign", sign_all, "crypto_sign_seed_keypair crypto_sign crypto_sign_open crypto_sign_detached crypto_sign_verify_detached crypto_sign_init crypto_sign_update crypto_sign_final_create crypto_sign_final_verify crypto_sign_ed25519 crypto_sign_ed25519_open crypto_sign_ed25519_detached crypto_sign_ed25519_verify_detached crypto_sign_ed25519_seed_keypair crypto_sign_ed25519ph_init crypto_sign_ed25519ph_update crypto_sign_ed25519ph_final_create crypto_sign_ed25519ph_final_verify crypto_sign_ed25519_sk_to_seed crypto_sign_ed25519_sk_to_pk crypto_sign_ed25519_pk_to_curve25519 crypto_sign_ed25519_sk_to_curve25519", 1 },
        { "core_ed25519", core_ed25519_all, "crypto_core_ed25519_is_valid_point crypto_core_ed25519_add crypto_core_ed25519_sub crypto_core_ed25519_from_uniform crypto_core_ed25519_from_string crypto_core_ed25519_from_string_ro crypto_core_ed25519_scalar_add crypto_core_ed25519_scalar_sub crypto_core_ed25519_scalar_mul crypto_core_ed25519_scalar_negate crypto_core_ed25519_scalar_complement crypto_core_ed25519_scalar_invert crypto_core_ed25519_scalar_reduce crypto_core_ed25519_scalar_is_canonical crypto_scalarmult_ed25519 crypto_scalarmult_ed25519_noclamp crypto_scalarmult_ed25519_base crypto_scalarmult_ed25519_base_noclamp", 1 },
        { "core_ristretto255", core_ristretto_all, "crypto_core_ristretto255_is_valid_point crypto_core_ristretto255_add crypto_core_ristretto255_sub crypto_core_ristretto255_from_hash crypto_core_ristretto255_from_string crypto_core_ristretto255_from_string_ro crypto_core_ristretto255_scalar_add crypto_core_ristretto255_scalar_sub crypto_core_ristretto255_scalar_mul crypto_core_ristretto255_scalar_negate crypto_core_ristretto255_scalar_complement crypto_core_ristretto255_scalar_invert crypto_core_ristretto255_scalar_reduce crypto_core_ristretto255_scalar_is_canonical crypto_scalarmult_ristretto255 crypto_scalarmult_ristretto255_base", 1 },
        { "verify_utils", verify_all, "crypto_verify_16 crypto_verify_32 crypto_verify_64 sodium_memcmp sodium_compare sodium_is_zero sodium_increment sodium_add sodium_sub sodium_memzero sodium_stackzero", 0 },
        { "codecs", codecs_all, "sodium_bin2hex sodium_hex2bin sodium_bin2base64 sodium_base642bin sodium_base64_encoded_len", 0 },
        { "padding", pad_all, "sodium_pad sodium_unpad", 0 },
        { "pwhash_large", pwhash_large, "crypto_pwhash", 2 },
        { "scrypt_params", scrypt_params, "crypto_pwhash_scryptsalsa208sha256_ll crypto_pwhash_scryptsalsa208sha256_str_verify", 0 },
        { "pwhash_strings", pwhash_strings, "crypto_pwhash_str_verify crypto_pwhash_argon2i_str_verify crypto_pwhash_argon2id_str_verify crypto_pwhash_scryptsalsa208sha256_str_verify crypto_pwhash_str_needs_rehash crypto_pwhash_argon2i_str_needs_rehash crypto_pwhash_argon2id_str_needs_rehash crypto_pwhash_scryptsalsa208sha256_str_needs_rehash", 1 },
        { "pwhash", pwhash_all, "crypto_pwhash crypto_pwhash_argon2i crypto_pwhash_argon2id crypto_pwhash_scryptsalsa208sha256 crypto_pwhash_scryptsalsa208sha256_ll crypto_pwhash_str_verify crypto_pwhash_argon2i_str_verify crypto_pwhash_argon2id_str_verify crypto_pwhash_scryptsalsa208sha256_str_verify crypto_pwhash_str_needs_rehash crypto_pwhash_argon2i_str_needs_rehash crypto_pwhash_argon2id_str_needs_rehash crypto_pwhash_scryptsalsa208sha256_str_needs_rehash", 2 },
    };
    return T;
}

}  // namespace api
