// vh_rc.hpp -- rapidcheck as the generating/shrinking engine behind a vh sub-property.
// Every random choice is made by rapidcheck generators (so shrinking and replay work); the seed is derived
// from VERIF_SEED and the worker index; the shrunk counter-example is turned into a plain text replay file.
#pragma once
#include "vh.hpp"
#include <rapidcheck.h>
#include <rapidcheck/detail/TestParams.h>

namespace vh {

// gen:   () -> Case, draws everything through *rc::gen...
// run:   bool(const Case&, std::string& msg)
// key:   uint64_t(const Case&) distinctness key;  nontrivial: bool(const Case&)
template <class C, class GenFn, class KeyFn, class NtFn>
void rc_explore(Ctx &ctx, const std::string &stream, int cases, int max_size, GenFn gen, bool (*run)(const C &, std::string &), KeyFn key, NtFn nontrivial) {
    if (ctx.failed()) return;
    rc::detail::TestParams params;
    params.seed = mix64(mix64(ctx.seed, hash_str(stream)), (uint64_t) ctx.worker + 1);
    params.maxSuccess = std::max(1, cases / ctx.nworkers);
    params.maxSize = max_size;
    params.maxDiscardRatio = 20;
    KV last_kv; std::string last_msg; bool any_fail = false;
    rc::detail::TestMetadata md; md.id = stream; md.description = stream;
    auto result = rc::detail::checkTestable([&] {
        // rapidcheck scales integer ranges by the test "size", which cycles 0..maxSize: rc::gen::inRange(0, n) then rarely reaches the
        // top of its range (a value v needs size >= 100 v / n).  The generators here state their ranges explicitly and mean them
        // uniformly, so the whole case is drawn at the nominal size; shrinking (towards the lower bounds) is unaffected.
        C c = *rc::gen::resize(100, rc::gen::exec(gen));
        std::string msg; bool ok;
        { Guard g(ctx.cur_sub, c); ok = run(c, msg); }
        ctx.count(key(c), nontrivial(c));
        if (ctx.want_sample()) ctx.sample(c.kv());
        if (!ok) { any_fail = true; last_kv = c.kv(); last_msg = msg; }   // the last failing run is the most shrunk one
        RC_ASSERT(ok);
    }, md, params);
    if (result.template is<rc::detail::FailureResult>() && any_fail) {
        ctx.fail(last_kv, last_msg + " [shrunk by rapidcheck]");
    } else if (result.template is<rc::detail::GaveUpResult>()) {
        ctx.notes["rc_gave_up_" + stream] = "generator discarded too many cases";
    } else if (result.template is<rc::detail::Error>()) {
        ctx.notes["rc_error_" + stream] = result.template get<rc::detail::Error>().description;
        if (any_fail) ctx.fail(last_kv, last_msg);
    }
}

// generator helpers -------------------------------------------------------------------------------------------
inline rc::Gen<size_t> gen_len(size_t maxlen) {
    // explicit mixture: boundary lengths + small + uniform; never collapses at small sizes
    return rc::gen::resize(100, rc::gen::weightedOneOf<size_t>({
        { 3, rc::gen::element<size_t>(0, 1, 15, 16, 17, 31, 32, 33, 55, 56, 57, 63, 64, 65, 111, 112, 113, 119, 120, 127, 128, 129, 191, 192, 255, 256, 257) },
        { 2, rc::gen::inRange<size_t>(0, std::min<size_t>(maxlen, 80) + 1) },
        { 3, rc::gen::inRange<size_t>(0, maxlen + 1) } }));
}
inline Bytes bytes_from_seed(uint64_t seed, size_t n, int cls = 0) { Rng r(seed); return r.bytes_class(n, cls); }

}  // namespace vh
