// Buffers of 4 GiB and more for the "giant" sub-properties (thorough tier): lengths, offsets and counters are 64-bit quantities in every
// interface of the library, and below 4 GiB their upper halves are always zero.
//
//  * Sparse: a private anonymous mapping that is never written except for a few poked bytes - reading it costs no memory (every untouched
//    page is the kernel's zero page).  Right for inputs that are only read (messages to hash, associated data).
//  * Real: the same mapping filled with a cheap pattern - costs its size in RAM.  Needed where the library writes (cipher outputs).
//
// A mapping that cannot be had (address space, memory) makes the case "skipped" (counted in the evidence), never a failure.
#pragma once
#include <sys/mman.h>
#include <stdint.h>
#include <string.h>
#include <stdlib.h>
#include <stdio.h>
#include <string>

namespace giant {

struct Map {
    uint8_t *p = nullptr; size_t n = 0;
    explicit Map(size_t n_) : n(n_) { void *q = mmap(nullptr, n + 4096, PROT_READ | PROT_WRITE, MAP_PRIVATE | MAP_ANONYMOUS | MAP_NORESERVE, -1, 0); p = q == MAP_FAILED ? nullptr : (uint8_t *) q; }
    ~Map() { if (p) munmap(p, n + 4096); }
    Map(const Map &) = delete; Map &operator=(const Map &) = delete;
    bool ok() const { return p != nullptr; }
    // a few non-zero bytes at the places where a truncated length or offset would stop or restart
    void poke() { static const size_t at[] = { 0, 5, 63, 64, 4095 }; for (size_t a : at) if (a < n) p[a] = (uint8_t) (0x51 + a); const size_t G = (size_t) 1 << 32;
        for (size_t base : { G - 70, G - 1, G, G + 1, G + 64, n - 1, n - 17, n / 2 + 3 }) if (base < n) p[base] = (uint8_t) (0xa3 ^ base); }
    void fill(uint64_t seed) { uint64_t x = seed | 1; uint64_t *w = (uint64_t *) p; for (size_t i = 0; i < (n + 7) / 8; i++) { x ^= x << 13; x ^= x >> 7; x ^= x << 17; w[i] = x; } }
};

// cases that write their giant buffers ask first: with less than `need` + 6 GiB available right now the case is skipped (counted), so that
// several thorough checks running side by side cannot push the machine into the OOM killer
inline bool have_memory(size_t need) {
    FILE *f = fopen("/proc/meminfo", "r"); if (!f) return true;
    char line[200]; unsigned long long kb = 0; bool found = false;
    while (fgets(line, sizeof line, f)) if (sscanf(line, "MemAvailable: %llu kB", &kb) == 1) { found = true; break; }
    fclose(f);
    return !found || kb * 1024ULL > (unsigned long long) need + (6ULL << 30);
}

// the thorough tier repeats an exploration with new seeds (./check, thorough_rounds); the giant cases are enumerated, not seeded: once is enough
inline bool first_round() { const char *e = getenv("VERIF_ROUND"); return !e || atoi(e) == 0; }

inline bool fast_build() {
#ifdef VERIF_FLAVOUR
    return std::string(VERIF_FLAVOUR) == "plain" || std::string(VERIF_FLAVOUR) == "plainclang";
#else
    return false;
#endif
}

}  // namespace giant
