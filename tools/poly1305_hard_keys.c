/* Offline generator of "hard" Poly1305 keys (output committed as ref/poly1305_hard_keys.inc; not run by any check).
 *
 * The vectorised Poly1305 back end precomputes r^2 and r^4 mod p = 2^130 - 5.  A carry that is lost in that precomputation
 * only matters when a limb of the power is about to overflow, which for a random key has probability ~2^-37 or less, and the
 * limb patterns of a POWER of r cannot be reached by choosing messages.  Here the value T of the power is chosen first
 * (one 44-bit / 26-bit limb tiny or saturated, the next limb odd or even) and r is solved for: r = T^(1/e) mod p by modular
 * square roots (p = 5 mod 8), keeping only roots that are valid clamped keys (22 + 6 bits must be zero: ~2^-28 of all roots).
 *
 * gcc -O2 -pthread -o poly1305_hard_keys poly1305_hard_keys.c && ./poly1305_hard_keys > ../ref/poly1305_hard_keys.inc
 */
#include <stdint.h>
#include <stdio.h>
#include <stdlib.h>
#include <string.h>
#include <pthread.h>

typedef unsigned __int128 u128;
typedef struct { uint64_t l[3]; } fe;                 /* 44 / 44 / 42 bit limbs, value < 2^130 (not always < p) */
#define M44 0xfffffffffffULL
#define M42 0x3ffffffffffULL

static fe fe_mul(const fe *a, const fe *b) {
    uint64_t a0 = a->l[0], a1 = a->l[1], a2 = a->l[2], b0 = b->l[0], b1 = b->l[1], b2 = b->l[2];
    uint64_t s1 = b1 * 20, s2 = b2 * 20;                                   /* 2^132 = 4 * 2^130 = 20 mod p */
    u128 d0 = (u128) a0 * b0 + (u128) a1 * s2 + (u128) a2 * s1;
    u128 d1 = (u128) a0 * b1 + (u128) a1 * b0 + (u128) a2 * s2;
    u128 d2 = (u128) a0 * b2 + (u128) a1 * b1 + (u128) a2 * b0;
    uint64_t c; fe r;
    r.l[0] = (uint64_t) d0 & M44; c = (uint64_t) (d0 >> 44);
    d1 += c; r.l[1] = (uint64_t) d1 & M44; c = (uint64_t) (d1 >> 44);
    d2 += c; r.l[2] = (uint64_t) d2 & M42; c = (uint64_t) (d2 >> 42);
    r.l[0] += c * 5; c = r.l[0] >> 44; r.l[0] &= M44;
    r.l[1] += c; c = r.l[1] >> 44; r.l[1] &= M44;
    r.l[2] += c;                                                            /* < 2^42 + 1: fine for further multiplications */
    return r;
}
static void fe_canon(fe *h) {                                              /* full reduction to [0, p) */
    uint64_t c, g0, g1, g2, m;
    c = h->l[2] >> 42; h->l[2] &= M42; h->l[0] += c * 5;
    c = h->l[0] >> 44; h->l[0] &= M44; h->l[1] += c; c = h->l[1] >> 44; h->l[1] &= M44; h->l[2] += c;
    c = h->l[2] >> 42; h->l[2] &= M42; h->l[0] += c * 5; c = h->l[0] >> 44; h->l[0] &= M44; h->l[1] += c;
    g0 = h->l[0] + 5; c = g0 >> 44; g0 &= M44; g1 = h->l[1] + c; c = g1 >> 44; g1 &= M44; g2 = h->l[2] + c - ((uint64_t) 1 << 42);
    m = (g2 >> 63) - 1;                                                     /* all ones if h >= p */
    h->l[0] = (h->l[0] & ~m) | (g0 & m); h->l[1] = (h->l[1] & ~m) | (g1 & m); h->l[2] = (h->l[2] & ~m) | (g2 & M42 & m);
}
static int fe_eq(fe a, fe b) { fe_canon(&a); fe_canon(&b); return a.l[0] == b.l[0] && a.l[1] == b.l[1] && a.l[2] == b.l[2]; }
static fe fe_neg(fe a) { fe r; fe_canon(&a); /* p - a */ uint64_t p0 = M44 - 4, p1 = M44, p2 = M42; int64_t b;
    if (a.l[0] == 0 && a.l[1] == 0 && a.l[2] == 0) return a;
    b = (int64_t) p0 - (int64_t) a.l[0]; r.l[0] = (uint64_t) b & M44; b = (int64_t) p1 - (int64_t) a.l[1] - (b < 0); r.l[1] = (uint64_t) b & M44; b = (int64_t) p2 - (int64_t) a.l[2] - (b < 0); r.l[2] = (uint64_t) b & M42; return r; }
/* a^e for a 130-bit exponent given as two 65-bit halves is overkill: exponents here are fixed, given as byte strings */
static fe fe_pow(const fe *a, const unsigned char *e, int nbits) {
    fe r = { { 1, 0, 0 } }; int i;
    for (i = nbits - 1; i >= 0; i--) { r = fe_mul(&r, &r); if ((e[i / 8] >> (i % 8)) & 1) r = fe_mul(&r, a); }
    return r;
}
static void setup(void) { (void) fe_pow; }
/* p = 2^130 - 5 = 3 mod 4, so a square root of a quadratic residue a is a^((p+1)/4) = a^(2^128 - 1); addition chain on 2^k - 1 */
static fe sqn(fe x, int n) { while (n--) x = fe_mul(&x, &x); return x; }
static int fe_sqrt(const fe *a, fe *root) {
    fe x1 = *a, x2, x4, x8, x16, x32, x64, x, xx, t;
    t = sqn(x1, 1); x2 = fe_mul(&t, &x1);
    t = sqn(x2, 2); x4 = fe_mul(&t, &x2);
    t = sqn(x4, 4); x8 = fe_mul(&t, &x4);
    t = sqn(x8, 8); x16 = fe_mul(&t, &x8);
    t = sqn(x16, 16); x32 = fe_mul(&t, &x16);
    t = sqn(x32, 32); x64 = fe_mul(&t, &x32);
    t = sqn(x64, 64); x = fe_mul(&t, &x64);
    xx = fe_mul(&x, &x);
    if (!fe_eq(xx, *a)) return 0;
    *root = x; return 1;
}
static void fe_tobytes(fe a, unsigned char out[17]) { int i; u128 lo; uint64_t hi; fe_canon(&a);
    lo = (u128) a.l[0] | ((u128) a.l[1] << 44) | ((u128) a.l[2] << 88); hi = a.l[2] >> 40;   /* bits 128..129 */
    for (i = 0; i < 16; i++) out[i] = (unsigned char) (lo >> (8 * i)); out[16] = (unsigned char) hi; }
static int clamped(const unsigned char r[17]) {
    return r[16] == 0 && (r[3] & 0xf0) == 0 && (r[7] & 0xf0) == 0 && (r[11] & 0xf0) == 0 && (r[15] & 0xf0) == 0 && (r[4] & 3) == 0 && (r[8] & 3) == 0 && (r[12] & 3) == 0;
}
static uint64_t rng_next(uint64_t *s) { uint64_t z = (*s += 0x9e3779b97f4a7c15ULL); z = (z ^ (z >> 30)) * 0xbf58476d1ce4e5b9ULL; z = (z ^ (z >> 27)) * 0x94d049bb133111ebULL; return z ^ (z >> 31); }

/* patterns: which limb of the power (radix 44: limbs 0,1; radix 26: limbs 0..4) is tiny (< 2^7) or saturated (>= 2^w - 2^7), parity of the next limb */
typedef struct { int e, radix, limb, sat, odd; } pattern;
static fe make_target(const pattern *pt, uint64_t *s) {
    unsigned char b[17]; int i; u128 v = 0; uint64_t top; fe t;
    for (i = 0; i < 16; i++) v |= (u128) (rng_next(s) & 0xff) << (8 * i);
    top = rng_next(s) & 3;
    {   int w = pt->radix, lo = pt->limb * w, hi = lo + w; u128 mask, val; uint64_t small = rng_next(s) & 0x7f;
        if (hi > 130) hi = 130;
        /* work on a 130-bit value held in (top:v) */
        /* clear the limb, then set it */
        for (i = lo; i < hi; i++) { if (i < 128) v &= ~((u128) 1 << i); else top &= ~((uint64_t) 1 << (i - 128)); }
        val = pt->sat ? (((u128) 1 << (hi - lo)) - 1 - small) : small;
        for (i = lo; i < hi; i++) if ((val >> (i - lo)) & 1) { if (i < 128) v |= (u128) 1 << i; else top |= (uint64_t) 1 << (i - 128); }
        if (hi < 130) { if (hi < 128) { v &= ~((u128) 1 << hi); if (pt->odd) v |= (u128) 1 << hi; } else { top &= ~((uint64_t) 1 << (hi - 128)); if (pt->odd) top |= (uint64_t) 1 << (hi - 128); } }
        (void) mask;
    }
    for (i = 0; i < 16; i++) b[i] = (unsigned char) (v >> (8 * i)); b[16] = (unsigned char) top;
    t.l[0] = (uint64_t) v & M44; t.l[1] = (uint64_t) (v >> 44) & M44; t.l[2] = ((uint64_t) (v >> 88) & 0xffffffffffULL) | (top << 40);
    return t;
}
typedef struct { pattern pt; int want; uint64_t seed; int found; unsigned char keys[16][16]; unsigned char pow[16][17]; uint64_t tries; } job;
static void *worker(void *arg) {
    job *j = (job *) arg; uint64_t s = j->seed;
    while (j->found < j->want && j->tries < ((uint64_t) 1 << 34)) {
        fe t = make_target(&j->pt, &s), r1, r2; unsigned char rb[17]; int k;
        j->tries++;
        if (!fe_sqrt(&t, &r1)) continue;
        for (k = 0; k < 2; k++) {
            fe cand = k ? fe_neg(r1) : r1;
            if (j->pt.e == 4) {      /* need a fourth root: take a square root of the square root (both signs) */
                int k2; fe q;
                if (!fe_sqrt(&cand, &q)) continue;
                for (k2 = 0; k2 < 2; k2++) { fe c2 = k2 ? fe_neg(q) : q; fe_tobytes(c2, rb); if (clamped(rb) && j->found < j->want) { fe chk = fe_mul(&c2, &c2); chk = fe_mul(&chk, &chk); if (fe_eq(chk, t)) { memcpy(j->keys[j->found], rb, 16); fe_tobytes(t, j->pow[j->found]); j->found++; } } }
            } else {
                r2 = cand; fe_tobytes(r2, rb);
                if (clamped(rb) && j->found < j->want) { fe chk = fe_mul(&r2, &r2); if (fe_eq(chk, t)) { memcpy(j->keys[j->found], rb, 16); fe_tobytes(t, j->pow[j->found]); j->found++; } }
            }
        }
    }
    return NULL;
}
int main(void) {
    static job jobs[64]; pthread_t th[64]; int n = 0, i, k, a;
    setup();
    {   uint64_t s = 42; int bad = 0;
        for (i = 0; i < 2000; i++) {
            fe x, sq, rt, c; x.l[0] = rng_next(&s) & M44; x.l[1] = rng_next(&s) & M44; x.l[2] = rng_next(&s) & M42;
            sq = fe_mul(&x, &x);
            if (!fe_sqrt(&sq, &rt)) { bad++; continue; }
            c = fe_mul(&rt, &rt); if (!fe_eq(c, sq)) bad++;
            if (!fe_eq(rt, x) && !fe_eq(fe_neg(rt), x)) bad++;
        }
        fprintf(stderr, "selftest: %d bad of 2000\n", bad); if (bad) return 2;
    }
    /* r^2: 16 patterns (first batch); r^4 (a fourth root exists for a quarter of the targets only): 6 patterns, one witness each */
    for (int limb = 0; limb < 2; limb++) for (int sat = 0; sat < 2; sat++) for (int odd = 0; odd < 2; odd++) { jobs[n].pt = (pattern){ 2, 44, limb, sat, odd }; jobs[n].want = 8; jobs[n].seed = 0x1000 + (uint64_t) n * 7919; n++; }
    for (int limb = 0; limb < 4; limb++) for (int sat = 0; sat < 2; sat++) { jobs[n].pt = (pattern){ 2, 26, limb, sat, 1 }; jobs[n].want = 3; jobs[n].seed = 0x2000 + (uint64_t) n * 104729; n++; }
    for (int sat = 0; sat < 2; sat++) for (int odd = 0; odd < 2; odd++) { jobs[n].pt = (pattern){ 4, 44, 1, sat, odd }; jobs[n].want = 3; jobs[n].seed = 0x3000 + (uint64_t) n * 7919; n++; }
    for (int sat = 0; sat < 2; sat++) { jobs[n].pt = (pattern){ 4, 44, 0, sat, 1 }; jobs[n].want = 3; jobs[n].seed = 0x4000 + (uint64_t) n * 7919; n++; }
    for (i = 0; i < n; i += 16) {
        for (k = i; k < n && k < i + 16; k++) pthread_create(&th[k], NULL, worker, &jobs[k]);
        for (k = i; k < n && k < i + 16; k++) pthread_join(th[k], NULL);
        fprintf(stderr, "batch %d done\n", i / 16);
    }
    printf("// generated by tools/poly1305_hard_keys.c: clamped Poly1305 r values whose square / fourth power mod 2^130-5 has one limb tiny or saturated.\n");
    printf("// { power e, radix, limb, saturated, next limb odd, r (16 bytes, little endian), r^e mod p (17 bytes, little endian) }\n");
    for (i = 0; i < n; i++) for (k = 0; k < jobs[i].found; k++) {
        printf("{ %d, %d, %d, %d, %d, \"", jobs[i].pt.e, jobs[i].pt.radix, jobs[i].pt.limb, jobs[i].pt.sat, jobs[i].pt.odd);
        for (a = 0; a < 16; a++) printf("%02x", jobs[i].keys[k][a]);
        printf("\", \"");
        for (a = 0; a < 17; a++) printf("%02x", jobs[i].pow[k][a]);
        printf("\" },\n");
    }
    for (i = 0; i < n; i++) fprintf(stderr, "pattern e=%d radix=%d limb=%d sat=%d odd=%d: %d found in %llu targets\n", jobs[i].pt.e, jobs[i].pt.radix, jobs[i].pt.limb, jobs[i].pt.sat, jobs[i].pt.odd, jobs[i].found, (unsigned long long) jobs[i].tries);
    return 0;
}
