#!/usr/bin/env python3
"""tools/seedrun.py <patch.diff> <ID> [<ID>...] [--tier quick|thorough]
Applies a seeded change to /repo, runs the given checks, and ALWAYS reverts /repo afterwards.  Prints one line per check."""
import subprocess, sys, time, os
args = sys.argv[1:]
tier = "quick"
if "--tier" in args:
    i = args.index("--tier"); tier = args[i + 1]; del args[i:i + 2]
patch, ids = args[0], args[1:]
st = subprocess.run(["git", "-C", "/repo", "status", "--short"], capture_output=True, text=True).stdout.strip()
if st:
    print("refusing: /repo has local changes:\n" + st); sys.exit(2)
r = subprocess.run(["git", "-C", "/repo", "apply", os.path.abspath(patch)], capture_output=True, text=True)
if r.returncode != 0:
    print("patch does not apply:", r.stderr); sys.exit(2)
try:
    for pid in ids:
        t0 = time.time()
        r = subprocess.run([os.path.join(os.path.dirname(os.path.abspath(__file__)), "..", "check"), pid, "--tier", tier], capture_output=True, text=True, errors="replace")
        viol = [l for l in r.stdout.splitlines() if l.startswith("VIOLATION")]
        detail = [l.strip() for l in r.stderr.splitlines() if "violation detail" in l]
        print("%s rc=%d %s in %.0fs %s" % (pid, r.returncode, "CAUGHT" if viol else ("INFRA" if r.returncode == 2 else "missed"), time.time() - t0, (detail[0][:300] if detail else "")))
finally:
    subprocess.run(["git", "-C", "/repo", "checkout", "--", "."])
