#!/usr/bin/env python3
"""tools/seedrun.py <patch.diff> <ID> [<ID>...] [--tier quick|thorough] [--record]
Applies a seeded change to /repo, runs the given checks, and ALWAYS reverts /repo afterwards.  Prints one line per check.
The evidence files of the checks run are put back afterwards (evidence describes the unchanged tree, not a seeded one).
--record: writes the outcome into meta.json next to the patch (checks_run / how_run)."""
import subprocess, sys, time, os, json, shutil
args = sys.argv[1:]
tier = "quick"
record = "--record" in args
if record: args.remove("--record")
if "--tier" in args:
    i = args.index("--tier"); tier = args[i + 1]; del args[i:i + 2]
patch, ids = args[0], args[1:]
st = subprocess.run(["git", "-C", "/repo", "status", "--short"], capture_output=True, text=True).stdout.strip()
if st:
    print("refusing: /repo has local changes:\n" + st); sys.exit(2)
r = subprocess.run(["git", "-C", "/repo", "apply", os.path.abspath(patch)], capture_output=True, text=True)
if r.returncode != 0:
    print("patch does not apply:", r.stderr); sys.exit(2)
V = os.path.join(os.path.dirname(os.path.abspath(__file__)), "..")
outcome = {}
try:
    for pid in ids:
        ev = os.path.join(V, "evidence", pid + ".json")
        if os.path.exists(ev): shutil.copy(ev, ev + ".keep")
        t0 = time.time()
        r = subprocess.run([os.path.join(os.path.dirname(os.path.abspath(__file__)), "..", "check"), pid, "--tier", tier], capture_output=True, text=True, errors="replace")
        viol = [l for l in r.stdout.splitlines() if l.startswith("VIOLATION")]
        detail = [l.strip() for l in r.stderr.splitlines() if "violation detail" in l]
        res = "CAUGHT" if viol else ("INFRA" if r.returncode == 2 else "missed")
        outcome[pid] = res + ((" -- " + detail[0].split("violation detail:", 1)[-1].strip()[:200]) if viol and detail else "")
        print("%s rc=%d %s in %.0fs %s" % (pid, r.returncode, res, time.time() - t0, (detail[0][:300] if detail else "")))
        if os.path.exists(ev + ".keep"): shutil.move(ev + ".keep", ev)
        shutil.rmtree(os.path.join(V, "replays", pid), ignore_errors=True)
finally:
    subprocess.run(["git", "-C", "/repo", "checkout", "--", "."])
if record:
    mp = os.path.join(os.path.dirname(os.path.abspath(patch)), "meta.json")
    m = json.load(open(mp))
    cr = m.get("checks_run", {})
    for k, v in outcome.items():
        if k in cr and "only after" in cr[k] and v.startswith("CAUGHT"): continue     # keep the hand-written history of a strengthened check
        cr[k] = v
    m["checks_run"] = cr
    m["how_run"] = "tools/seedrun.py <patch> <IDs> --tier %s  (git -C /repo apply; ./check <ID> --tier %s; git -C /repo checkout -- .)" % (tier, tier)
    json.dump(m, open(mp, "w"), indent=1)
