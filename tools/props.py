"""Per-property configuration for /verif/check."""

ASSUME_COMMON = [
    "x86-64 Linux host; clang 14 / gcc 12 builds of /repo's working tree made by tools/vbuild.py with the -D set of ./configure",
    "sanitizers (ASan+UBSan) observe memory errors and UB during every functional case",
]

PROPS = {}

PROPS["C14"] = dict(
    name="c14", sources=["props/c14.cpp"], engine="enumerator",
    builds=[("asan", "native"), ("asan", "noasm"), ("asan", "noti")],
    builds_thorough=[("asan", "native"), ("asan", "noasm"), ("asan", "noti"), ("asan", "portable"), ("plain", "native")],
    level="exploration",
    rule=("Enumerated: every length 0..130 (thorough 0..200) x {random pair, equal, all-00/ff, every single-bit difference, "
          "ms-vs-ls byte disagreement, carry/borrow chain of every length at every offset}; exhaustive all 65536 1-byte operand pairs "
          "and all 2-byte operands (unary) / 2-byte a x structured b (binary); random+carry-heavy operands at the asm fast-path lengths "
          "8/12/16/24/32/64; memzero every (offset,len) <= 80. Oracle: byte-vector big-integer model. Non-trivial = length >= 1 and "
          "operands not a plain random pair; distinct = (build, sub-property, op, length, class, position)."),
    exhaustive_axes="lengths 0..130, bit positions, chain (offset,length), all 1-byte operand pairs, all 2-byte unary operands, memzero (off,len)",
    assumptions=ASSUME_COMMON + ["operand contents that are not enumerated come from a splitmix64 stream seeded by VERIF_SEED"],
)

