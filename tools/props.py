"""Per-property configuration for /verif/check."""

ASSUME_COMMON = [
    "x86-64 Linux host; clang 14 / gcc 12 builds of /repo's working tree made by tools/vbuild.py with the -D set of ./configure",
    "sanitizers (ASan+UBSan) observe memory errors and UB during every functional case",
]

PROPS = {}

PROPS["C14"] = dict(
    name="c14", thorough_rounds=8, sources=["props/c14.cpp"], engine="enumerator",
    builds=[("asan", "native"), ("asan", "noasm"), ("asan", "noti"), ("asan", "nosimd")],
    builds_thorough=[("asan", "native"), ("asan", "noasm"), ("asan", "noti"), ("asan", "portable"), ("asan", "nosimd"), ("plain", "native")],
    level="exploration",
    rule=("Enumerated: every length 0..130 (thorough 0..200) x {random pair, equal, all-00/ff, every single-bit difference, "
          "ms-vs-ls byte disagreement, carry/borrow chain of every length at every offset}; exhaustive all 65536 1-byte operand pairs "
          "and all 2-byte operands (unary) / 2-byte a x structured b (binary); random+carry-heavy operands at the asm fast-path lengths "
          "8/12/16/24/32/64; memzero every (offset,len) <= 80. Every increment/add/sub/compare case is repeated on operands that end right before or start right after a PROT_NONE page, and the 0xa5 fill around each ordinary operand is verified after the call (the fast paths are inline assembly, invisible to ASan). The nosimd build also removes explicit_bzero / memset_s / explicit_memset / weak symbols from the configuration, so the last-resort volatile loop of sodium_memzero is the code under test there. Oracle: byte-vector big-integer model. Non-trivial = length >= 1 and "
          "operands not a plain random pair; distinct = (build, sub-property, op, length, class, position)."),
    exhaustive_axes="lengths 0..130, bit positions, chain (offset,length), all 1-byte operand pairs, all 2-byte unary operands, memzero (off,len)",
    assumptions=ASSUME_COMMON + ["operand contents that are not enumerated come from a splitmix64 stream seeded by VERIF_SEED"],
)


PROPS["C03"] = dict(
    name="c03", thorough_rounds=20, sources=["props/c03.cpp"], engine="enumerator",
    builds=[("asan", "native"), ("asan", "noasm")],
    builds_thorough=[("asan", "native"), ("asan", "noasm"), ("asan", "portable"), ("asan", "noti"), ("plain", "native")],
    level="exploration",
    rule=("Enumerated: every length 0..2304 x 7 ciphers x {stream, xor, xor_ic, crypto_stream aliases} x CPU masks {all, -avx2, -ssse3, none} "
          "(dispatch: dolbeau-avx2/ssse3/ref ChaCha20; xmm6int-avx2 / xmm6 asm / xmm6int-sse2 / ref Salsa20) x build variants; initial counters from "
          "{0, 1, random, 2^32-16..2^32+16, hi-word random with low word 2^32-16.., 2^64-17..2^64-1, IETF: largest that fits and 0..2 below}; "
          "counter walk: every start within +-17 blocks of 2^32, 2^33, 2^64 (wrap) and 0xffffffff00000000 x 16 lengths; IETF overflow probes in forked children "
          "(must end in the misuse handler): initial counter + blocks beyond 2^32 on real buffers, and length claims beyond 2^38 bytes (and near 2^64) through _ietf, _ietf_xor and _ietf_xor_ic on 4 KiB buffers; 6000 random/structured core-function cases. Oracle: ref/stream.hpp models evaluated block-by-block from integer counters "
          "(validated against RFC 8439, draft-xchacha, Salsa20 spec and NaCl vectors). Non-trivial = len>0 and (len%64!=0 or counter within 16 blocks of a carry or non-default backend); "
          "distinct = (build, cipher, form, len, mask, counter, alignment)."),
    exhaustive_axes="lengths 0..2304 per cipher/form/mask; counter starts +-17 around each carry boundary",
    assumptions=ASSUME_COMMON + ["64-bit ChaCha20/Salsa20 counters wrap modulo 2^64 (model choice; all backends agree)",
                                 "keys/nonces/messages not enumerated come from a splitmix64 stream seeded by VERIF_SEED"],
)

PROPS["C15"] = dict(
    name="c15", thorough_rounds=30, sources=["props/c15.cpp"], engine="enumerator",
    builds=[("asan", "native")],
    builds_thorough=[("asan", "native"), ("asan", "portable"), ("plain", "native")],
    level="exploration",
    rule=("Encoding: every length 0..72 x 5 content classes x {hex, 4 Base64 variants} x capacity {exact, +1, +9} plus all 65536 two-byte values, each with "
          "decode(encode(x))==x at exact capacity. Decoding: EXHAUSTIVE all texts of length 0..2 over all 256 byte values, length 3 over a 40-symbol and length 4 over an "
          "11-symbol alphabet containing every character class (alphabet, other-variant, '=', ignore chars, NUL, >=0x80), for each codec x ignore {NULL,\" \\n\",\":\"} x "
          "end pointer {NULL, given}; mutated valid encodings of every length 0..40 (truncation at every position, foreign char inserted/substituted at every position, "
          "ignore char at every position, padding +1/+2/-1/removed, trailing space/newline/alphabet/NUL, leading space, non-zero trailing bits, other alphabet, other variant, "
          "upper-case hex) at every output capacity 0..needed+1. Oracle: ref/codecs.hpp strict decoder (return code, *bin_len, *end, bytes, no write past capacity via ASan-poisoned exact buffers). "
          "Non-trivial = text length >= 1 containing at least one alphabet character; distinct = (codec, text, capacity, ignore, end, mutation)."),
    exhaustive_axes="all texts of length <= 2 over 256 byte values; lengths 3/4 over reduced alphabets; every capacity 0..needed+1; every mutation position",
    assumptions=ASSUME_COMMON + ["An ignore character between the two digits of a hex pair is treated as unspecified (documentation says 'any location', implementation skips only between pairs)",
                                 "after a failed decode only the return value and memory safety are asserted (contents of *bin_len / *end / buffer unspecified)"],
)

PROPS["C16"] = dict(
    name="c16", thorough_rounds=4, sources=["props/c16.cpp"], engine="enumerator",
    builds=[("asan", "native")],
    builds_thorough=[("asan", "native"), ("asan", "portable"), ("plain", "native")],
    level="exploration",
    rule=("Pad: every (unpadded length 0..320) x (block size 0..130, 255, 256, 257, 1000, 4096, 65536, 2^20; large blocks thinned; plus block sizes 2^24+1, 2^25, 2^25+3 with more than 2^24 padding bytes) x stated capacity {0, unpadded/2, unpadded-1, unpadded, padded-1, padded, "
          "padded+1, padded+blocksize+3} (the buffer always holds the data; a smaller stated capacity must give -1 without a write) with NULL and non-NULL length pointer; oracle: 0x80 then zeros to the next multiple, data and bytes past the padded length untouched, "
          "-1 without any write when it does not fit or block size is 0, unpad(pad(x)) == |x|. Unpad: EXHAUSTIVE final blocks over {00,80,01,ff} for block sizes 1..6 with 0..2 preceding "
          "blocks full of markers; for larger block sizes marker at every position x {valid, 0x81, junk after, later marker, missing, markers before} x {aligned, non-multiple length}; "
          "too-short buffers and block size 0. Bytes before the final block are ASan-poisoned during sodium_unpad. Non-trivial = block size >= 2; distinct = (length, block size, capacity | final block contents)."),
    exhaustive_axes="(unpadded 0..320) x (blocksize 0..130); all final blocks over a 4-symbol alphabet for block sizes 1..6",
    assumptions=ASSUME_COMMON + ["for a padded length that is not a multiple of the block size, 'final block' means the last blocksize bytes (as the implementation and utils.h describe)"],
)

PROPS["C17"] = dict(
    name="c17", thorough_rounds=5, sources=["props/c17.cpp"], engine="enumerator",
    builds=[("plain", "native")],
    builds_thorough=[("plain", "native"), ("plainclang", "native"), ("plain", "portable")],
    level="exploration",
    rule=("Each probe runs in a forked child of a non-sanitized build and its exit status / fatal signal is compared with a four-state model (RW/RO/NONE/freed). Sizes 0..3*page+1: every size within "
          "17 of a page multiple and every 7th size between (thorough: all) x {fill pattern + first/last byte read/write + free must succeed; read of p[size] and write of p[size] must fault; "
          "flipping p[-k] for k=1..16 then sodium_free must kill the process; read of the byte before the data pages must fault}; sodium_allocarray exact products; all 120 protection "
          "histories of length 1..4 over {noaccess, readonly, readwrite} x 6 sizes x {read first/last, write first/last, free} with every mprotect call required to return 0; "
          "in-process: sodium_malloc(size >= SIZE_MAX-4*page) and sodium_allocarray at count*size overflow boundaries return NULL with errno==ENOMEM, zero/small products succeed. "
          "Non-trivial = size not a multiple of 16 or within 17 of a page boundary, or a history with >= 2 distinct states; distinct = (size, history, probe, k)."),
    exhaustive_axes="all 120 protection histories of length <= 4; k = 1..16 for sizes near page boundaries",
    assumptions=["non-sanitized gcc -O2 build so raw SIGSEGV/SIGBUS/SIGABRT are observed", "Linux mmap/mprotect page protection (HAVE_PAGE_PROTECTION path)"],
)

PROPS["C13"] = dict(
    name="c13", thorough_rounds=5, sources=["props/c13.cpp"], engine="enumerator",
    builds=[("asan", "native"), ("asan", "noasm")],
    builds_thorough=[("asan", "native"), ("asan", "noasm"), ("asan", "portable"), ("asan", "noti")],
    level="exploration",
    rule=("Differential: each call is made with disjoint exact-size (ASan-poisoned) buffers and again with out = in + off inside one exact-size arena; return code, output, detached tag and "
          "reported length must be identical, open/decrypt results must equal the original message, and bytes outside both buffers must be untouched. Exact aliasing (off=0): every length "
          "0..1280 for all 13 stream xor[_ic] functions and encrypt / encrypt_detached / decrypt / decrypt_detached of the 6 AEADs (+ AES-256-GCM afternm); arbitrary overlap: every offset "
          "-80..+80 x 28 lengths (all residues mod 64 over 0..1280; 10 for the public-key APIs) for secretbox/box {easy, detached, open_easy, open_detached} in both cipher variants incl. "
          "_afternm forms, crypto_sign and crypto_sign_open; CPU masks {all, -avx2, none, aes-off} rotated per case (thorough: all masks per case), builds native + noasm. "
          "Non-trivial = real overlap (length > |off|) or off=0 with length >= 16; distinct = (build, API, length, offset, mask)."),
    exhaustive_axes="offsets -80..+80 for every overlap-tolerant API; lengths 0..1280 for exact aliasing",
    assumptions=ASSUME_COMMON + ["key / nonce / ad / message contents come from a splitmix64 stream seeded by VERIF_SEED"],
)

PROPS["C02"] = dict(
    name="c02", thorough_rounds=1, sources=["props/c02.cpp"], engine="enumerator",
    builds=[("asan", "native")],
    builds_thorough=[("asan", "native"), ("asan", "noasm"), ("asan", "portable"), ("plain", "native")],
    level="exploration",
    rule=("For each of the verifying APIs (6 AEADs x {decrypt, decrypt verify-only (m=NULL), decrypt_detached, detached verify-only} + AES-256-GCM afternm, secretbox open_easy/open_detached in both "
          "ciphers + NaCl form, box open_easy/open_detached/afternm forms/NaCl forms/seal_open in both ciphers, secretstream pull, crypto_auth x4 and crypto_onetimeauth verify, crypto_sign_open, "
          "verify_detached, Ed25519ph final_verify) a valid tuple is built with the library for message lengths {0,1,15,16,17,31,32,33,63,64,65,96} (every bit of every tamperable field flipped) and "
          "{127,128,129,255,256,257,600} (256 sampled bit positions per field), then tampered: single-bit flip (sampled sweeps always include the structurally special bits: first/last byte, bits 248-255 and 256-263 of a field that embeds a 32-byte key or header), the same bit flipped in two bytes 4/8/16/32 bytes apart (differences that cancel in a lane-wise or XOR-folding comparison), truncation of each variable-length field to every shorter length (incl. below the tag size), "
          "extension by 1/2/15/16/17 bytes, field swapped in from an independent valid tuple. Oracle: return != 0, reported length 0, secretstream tag 0xff, every output byte equals the pre-fill or one "
          "constant filler byte (same value across independent keys/messages), no 8-byte window of the true plaintext in the output (ASan-poisoned exact buffers); the untampered tuple must verify and "
          "return the message. Excluded as spec-defined don't-care bits: the 22 clamped bits of the Poly1305 r key half, the 16-byte NaCl zero prefix; asymmetric key pairs are not flipped. "
          "AEGIS/AES-GCM are additionally run with AES-NI masked off (soft AES). Non-trivial = a tampering that changes at least one bit or the length; distinct = (API, mlen, tamper kind, field, position, mask)."),
    exhaustive_axes="every bit of every tamperable field for messages <= 96 bytes; every truncation length",
    assumptions=ASSUME_COMMON + ["a random tamper verifies with probability <= 2^-100 (cryptographic assumption)", "valid tuples are produced by the library's own encrypt/sign functions (their conformance is C01/C04/C06)"],
)

PROPS["C18"] = dict(
    name="c18", thorough_rounds=30, sources=["props/c18.cpp"], engine="enumerator",
    ldflags=["-Wl,--wrap=getrandom,--wrap=getentropy,--wrap=fstat,--wrap=read,--wrap=open,--wrap=open64,--wrap=gettimeofday"],
    builds=[("asan", "native")],
    builds_thorough=[("asan", "native"), ("asan", "portable"), ("plain", "native")],
    level="exploration",
    rule=("A scripted randombytes_implementation without `uniform` is installed before sodium_init and logs every request. (a) randombytes_uniform(n) for n in {0,1,2,3,5,..,2^k-1,2^k,2^k+1 (k=2..31), "
          "2^31+-1, 2^32-1, 2^32-2, 300 random}: scripts of 0..4 rejected draws taken from {0, min-1, min/2, random<min} in every order followed by an accepted draw from {min, min+1, 2^32-1, random}; plus rejection runs of 5..4097 draws for 7 bounds; "
          "oracle: result = first draw >= 2^32 mod n, modulo n, exact number of draws consumed, 0 with no draw for n<2. (b) randombytes_buf_deterministic for every length 0..1100 against the reference "
          "ChaCha20-IETF keystream with nonce 'LibsodiumDRG' under 3 CPU masks. (c) 50 generating APIs (29 *_keygen, 3 X25519 key pairs, Ed25519 key pair, secretstream header, 2 sealed boxes, 5 password-hash "
          "string functions, random Edwards/Ristretto points, random scalars with scripts forcing the rejection loop (>=L, zero, exactly L, L-1 with masked bits), randombytes_buf/random); a quarter of the cases first call randombytes_stir / randombytes_close (in four orders) on the installed source, which must stay the one in use): output equals the "
          "documented function of the served bytes (reference X25519 / Ed25519 / Ristretto / Base64 models), requested bytes >= secret size, replaying the same script reproduces the output, flipping one "
          "served byte that the specification uses changes it. (d) the two sources the library ships, on a scripted kernel: getrandom(2), read(2)/open(2) and gettimeofday(2) are interposed at link time; 240 scenarios (thorough 1500) in forked children, "
          "half with getrandom available (failing with EINTR/EAGAIN up to 3 times in a row), half with getrandom = ENOSYS so that /dev/urandom is read (short reads of 1..n bytes, EINTR/EAGAIN). sysrandom (the default source): 6..15 operations from "
          "{randombytes_buf/randombytes of 1..1500 bytes at 16 alignments, randombytes_random, randombytes_uniform with high-rejection bounds, keygen 32/64, crypto_box_keypair, randombytes_close, randombytes_stir}; oracle: every output byte was written by the kernel "
          "source during the call and holds the byte served for that address, random = the 4 bytes served, uniform = first accepted draw of the served bytes. internal (ChaCha20-based) source: at least 32 seed bytes are requested from the kernel before the first output, "
          "during randombytes_stir() and before the first output after randombytes_close(); flipping one bit in one of the 32 seed bytes (first seeding, reseeding) in a second child changes what is generated afterwards (RDRAND masked, clock scripted). Non-trivial = uniform scripts with >=1 rejection; every deterministic length >= 1; every generator case; distinct = (n, script) / (len, mask) / (API, script seed)."),
    exhaustive_axes="deterministic lengths 0..1100; rejection depth 0..4 with all orders of threshold-adjacent draws",
    assumptions=ASSUME_COMMON + ["crypto_core_ed25519_random is compared with the library's own crypto_core_ed25519_from_uniform applied to the served bytes (the map itself is C07's claim)",
                                 "bits a specification ignores (X25519 clamp bits, Ristretto top bits) are not used as perturbation positions",
                                 "built-in sources: the kernel interface is the glibc getrandom()/read()/open() entry points the library calls; a child that the library aborts (sodium_misuse) while the scripted kernel behaves as a real one may counts as a failure"],
)

PROPS["C04"] = dict(
    name="c04", thorough_rounds=8, sources=["props/c04.cpp"], engine="rapidcheck + enumerator", libs=["-lrapidcheck"],
    builds=[("asan", "native"), ("asan", "noti")],
    builds_thorough=[("asan", "native"), ("asan", "noti"), ("asan", "noasm"), ("asan", "portable"), ("plain", "native")],
    level="exploration",
    rule=("Enumerated: every message length 0..1100 x 12 algorithms (SHA-256/512, HMAC-SHA-256/512/512-256, BLAKE2b generichash with/without salt+personal, SipHash-2-4 64/128, Poly1305, "
          "HKDF-SHA-256/512 extract) one-shot and through init/update/final with a 4-way split, BLAKE2b and Poly1305 under every dispatch mask {all=AVX2, -avx2=SSE4.1, -sse41=SSSE3, -ssse3=ref, none=donna}; "
          "all 64x65 (digest length, key length) pairs of BLAKE2b; 60 sampled messages up to 256 KiB. rapidcheck (seed from VERIF_SEED, shrinking): 24000 update histories - lists of 0..14 chunk sizes drawn from "
          "block-related values {0,1,15..17,31..33,63..65,111..113,127..129,255..257} and arbitrary sizes - fed through init/update.../final for every streaming API, key lengths 0..200 for HMAC/HKDF. "
          "Poly1305 carries: three message blocks SOLVED so that the unreduced accumulator with r=1 is exactly 2^130-5+k, 2^130+k, 2^130+2^129+k, 2^129+2^128+2^127+k (k=-6..8) x 13 r values (1, 2, r_max, 0, 2^k) x "
          "s in {0, 2^128-1, random} x every final-block length 0..17; all-ff/all-00 messages of 0..20 blocks + 0..31 tail bytes; limb-saturation vectors: r = 1 and blocks (V, 0, 0, 0) whose wrap at 2^130 carries into limbs that are all ones, for 26-bit (donna32) and 44-bit (donna64) limbs, every limb position, every mask. Verify functions: correct tag accepted, every single-bit flip of the tag rejected. "
          "KDFs: crypto_kdf subkey_len 0..80 (x ids 0, 1, 2^64-1, random), HKDF expand out_len 0..200, sampled to 255*hashlen and +-1 around it, ctx 0..100 incl. NULL; out-of-range generichash outlen/keylen. "
          "Oracle: ref/sha2.hpp, blake2b.hpp, poly1305.hpp (big-integer). Non-trivial = len>=1 and (>=2 non-empty chunks or keyed or non-default backend or crafted carry); distinct = (build, alg, len, key/out length, mask, chunk list)."),
    exhaustive_axes="message lengths 0..1100; BLAKE2b (outlen, keylen) grid; tag bit positions; kdf subkey lengths",
    assumptions=ASSUME_COMMON + ["message contents are derived from rapidcheck-/VERIF_SEED-chosen 64-bit seeds via splitmix64 so that cases shrink on structure, not on content"],
)

PROPS["C01"] = dict(
    name="c01", thorough_rounds=1, sources=["props/c01.cpp"], engine="enumerator",
    builds=[("asan", "native"), ("asan", "noasm")],
    builds_thorough=[("asan", "native"), ("asan", "noasm"), ("asan", "noti"), ("asan", "portable"), ("plain", "native")],
    level="exploration",
    rule=("12 constructions (ChaCha20-Poly1305 original/IETF, XChaCha20-Poly1305, AES-256-GCM incl. beforenm/afternm, AEGIS-128L/256, secretbox XSalsa20/XChaCha20, box in both ciphers, sealed boxes in both "
          "ciphers with the ephemeral key served by a scripted random source). For each case every call form is executed (combined, detached, clen_p==NULL, precomputed-key, easy, NaCl zero-padded, "
          "afternm(beforenm)) and compared byte for byte with the reference model (ciphertext, tag, reported lengths) and with each other; every output is decrypted by every matching form and must return "
          "the message and its length. Enumerated: every message length 0..320 plus 400 sampled lengths up to 2200 (thorough: every length 0..2200) with ad length from {0,1,15,16,17,31,32,33,random<300}; "
          "every ad length 0..320 plus 275 sampled / boundary ad lengths up to 2200 (thorough: every ad length 0..2200) with mlen in {0,1,random}; large messages up to 256 KiB (thorough 8 MiB). CPU masks per construction: ChaCha {AVX2, SSSE3, ref} x Poly1305 {SSE2, donna}, "
          "Salsa20 {AVX2, asm/SSE2, ref}, AEGIS {AES-NI, soft}, X25519 {sandy2x, ref10}; AES-256-GCM skipped (counted) where unavailable. Oracle: ref/constructions.hpp, aes256gcm.hpp, aegis.hpp "
          "(validated against RFC 8439, draft-xchacha, NaCl, NIST/Wycheproof/OpenSSL GCM and AEGIS draft vectors). Non-trivial = mlen+adlen>0 and (crosses a 16/32/64/112/224/256/512-byte boundary or non-default backend); "
          "distinct = (build, construction, mlen, adlen, mask, content class)."),
    exhaustive_axes="message lengths 0..320 (thorough 0..2200) and ad lengths 0..320 for every construction and mask",
    assumptions=ASSUME_COMMON + ["nsec is always NULL (unused by contract)", "keys, nonces and contents come from a splitmix64 stream seeded by VERIF_SEED"],
)

PROPS["C05"] = dict(
    name="c05", thorough_rounds=3, sources=["props/c05.cpp"], engine="rapidcheck + enumerator", libs=["-lrapidcheck"], cflags=["-O2"],
    builds=[("asan", "native"), ("asan", "noti")],
    builds_thorough=[("asan", "native"), ("asan", "noti"), ("asan", "portable"), ("asan", "noasm")],
    level="exploration",
    rule=("rapidcheck generators (seeded from VERIF_SEED, shrinking) draw (scalar, point) from structured classes: points {random, the 7 low-order u values, p-24..p+24, 2^255-40..2^255-1, 0..4000, 2^k, p-2^k, "
          "all-ones limbs in radix 2^51 / 2^25.5 / 2^64 with one limb cleared or perturbed, a low-order encoding whose last one or two bytes are replaced by arbitrary values (nearly blocklisted)}, each with bit 255 randomly set; every case is drawn at rapidcheck's nominal size, so each class and position is equally likely from the first case on; scalars {random, all 32 patterns of the five clamped bits, 0, all-ff, 2^k, small, sparse}. "
          "16000 scalarmult / base / DH-symmetry cases and 6000 beforenm (HSalsa20 / HChaCha20) / kx (cross-equality, BLAKE2b-512(shared||client_pk||server_pk), NULL rx/tx, adversarial low-order server keys) / "
          "seeded key-pair cases per build, plus a deterministic sweep of every low-order encoding x both top bits x all 32 clamp patterns. Each case runs under CPU masks {all = sandy2x AVX assembly, -avx = ref10} "
          "in builds native (51-bit limbs) and noti (25.5-bit limbs). Oracle: RFC 7748 Montgomery ladder on big integers (ref/x25519.hpp): return 0 and exact value when the result is non-zero, -1 exactly when it is all-zero. "
          "Non-trivial = structured (non-uniform) point or scalar, or a key-agreement API; distinct = (build, kind, classes, mask, operand bytes)."),
    exhaustive_axes="7 low-order encodings x 2 top bits x 32 clamp patterns x masks x {scalarmult, beforenm x2}",
    assumptions=ASSUME_COMMON,
)

PROPS["C06"] = dict(
    name="c06", thorough_rounds=1, sources=["props/c06.cpp"], engine="rapidcheck + enumerator", libs=["-lrapidcheck"], cflags=["-O2"],
    builds=[("asan", "native")],
    builds_thorough=[("asan", "native"), ("asan", "noti"), ("asan", "portable"), ("plain", "native")],
    level="exploration",
    rule=("Honest direction: every message length 0..300 (+24 sampled up to 64 KiB) with generated seeds: seed_keypair, sign_detached, sign (combined), Ed25519ph init/update/final_create (message fed in chunks) equal the RFC 8032 "
          "big-integer model; the signature verifies in detached, combined and pre-hashed form; ph and pure signatures are not interchangeable; sk_to_seed/sk_to_pk consistent; pk_to_curve25519 = (1+y)/(1-y), "
          "sk_to_curve25519 = clamp(SHA-512(seed)), scalarmult_base(sk_to_curve(sk)) == pk_to_curve(pk). Adversarial direction (rapidcheck, 16000 triples, shrinking; secret scalar known to the harness): S+k*L for "
          "k=1..15, S with each of the top 4 bits set, R = each of the 8 torsion points and each non-canonical alias (y+p, sign bit on x=0) with S=h*a so the cofactored equation holds, A = torsion point / alias "
          "with R=s*B,S=s, R+T with matching S and A+T signed with a (both cofactored-valid), single-bit flips of signature / message / key, non-canonical pk aliases y+p, random signatures; a deterministic sweep "
          "covers all torsion points x aliases as R and as A (pure and ph), every bit of signature, key and a 33-byte message, and every k. Oracle: implication 'library accepts => S<L, pk canonical, decodable and "
          "not small order, R decodable and not small order, 8(SB-R-hA)=0 over the given bytes' (the converse only for honest signatures); sign_open and verify_detached must agree. "
          "Non-trivial = adversarial triple; histogram records triples whose predicate fails for exactly one reason."),
    exhaustive_axes="message lengths 0..300; 8 torsion points x aliases x {R, A} x {pure, ph}; all bit positions of sig/pk/33-byte msg",
    assumptions=ASSUME_COMMON + ["cofactored-valid R+T / A+T triples may be accepted or rejected (the property states necessary conditions only)"],
)

PROPS["C07"] = dict(
    name="c07", thorough_rounds=2, sources=["props/c07.cpp"], engine="rapidcheck + enumerator", libs=["-lrapidcheck"], cflags=["-O2"],
    builds=[("asan", "native"), ("asan", "noti")],
    builds_thorough=[("asan", "native"), ("asan", "noti"), ("asan", "portable"), ("asan", "noasm"), ("plain", "native")],
    level="exploration",
    rule=("rapidcheck (seed from VERIF_SEED, shrinking) with model-generated operands of KNOWN order. Edwards25519 (16000 cases/build): encodings of prime-order points k*B, prime-order + each of the 7 non-trivial "
          "torsion points (orders 2L, 4L, 8L), pure torsion, non-canonical aliases of torsion points (y+p, sign bit on x=0), y>=p, small y, random bytes (half not on the curve), sign-flipped points; "
          "operations is_valid_point (accept exactly canonical encodings of order-L points), add/sub (exact canonical sum; -1 for off-curve; aliases: only 'if accepted then exact'), scalarmult with/without "
          "clamping and base variants (exact result; -1 for invalid points, identity results and all-zero scalars), from_uniform (output in the prime-order subgroup). Scalars from {random, 0, 1, L-3..L+3, "
          "k*L+-1, 2^252..2^255 +-3, all-ones, all clamp-bit patterns}. Ristretto255 (9000): valid encodings (also of coset representatives P+T), negative s, s>=p, high bit, small, random; is_valid/add/sub/"
          "scalarmult/base/from_hash against RFC 9496. Scalar arithmetic (40000): add/sub on reduced inputs incl. L-1, mul/negate/complement/invert/reduce (64-byte inputs incl. multiples of L) on arbitrary "
          "byte strings, is_canonical, for both APIs, against integers mod L. Hash-to-group (5000): from_string / from_string_ro for edwards25519 (NU/RO) and ristretto255 with SHA-256 and SHA-512, messages 0..600 "
          "bytes incl. NULL, contexts empty/NULL/1..255 bytes against RFC 9380, every output checked for prime-order membership; contexts of 256..1000 bytes are a separate sub-property (known finding). Solved results: pairs (P, Q) constructed so that the y and, separately, the x coordinate of P+Q / P-Q is a chosen value (just below p, 0..40, saturated 25.5- and 51-bit limb patterns), to reach the final reduction and the sign computation of the encoder. A deterministic "
          "sweep runs every torsion point, every alias, P+T for each T and all 255 encodings with only the top byte set through is_valid_point, scalarmult, scalarmult_noclamp, add and sub; the generator has a class of encodings with a single non-zero byte. Non-trivial = structured operand; distinct = (build, op, operand bytes)."),
    exhaustive_axes="8 torsion points x aliases and prime+T for each T through all point predicates",
    assumptions=ASSUME_COMMON + ["add/sub with non-canonical aliases: acceptance is unspecified, only the value of an accepted result is asserted"],
)

PROPS["C08"] = dict(
    name="c08", thorough_rounds=6, sources=["props/c08.cpp"], engine="rapidcheck + enumerator", libs=["-lrapidcheck"], cflags=["-O2"],
    builds=[("asan", "native")],
    builds_thorough=[("asan", "native"), ("asan", "noasm"), ("asan", "portable"), ("plain", "native")],
    level="exploration",
    rule=("Raw Argon2i/Argon2id through crypto_pwhash and the variant-specific functions: memory 8..1024 KiB incl. every residue of m mod 4 and the reference-index edge cases (m = 8,9,..,17,19,23,24,31..33,..), 1..4 passes, "
          "output lengths {16,17,31..33,63..66,127..129,200} and every length 16..130, passwords 0..200 bytes incl. embedded NUL, sub-KiB memlimit remainders, under every block-fill backend mask "
          "{AVX-512F, AVX2, SSSE3, ref}; scrypt through _ll (N=2^1..2^10, r in {1,2,3,8}, p=1..3) and through the opslimit/memlimit front end, SSE and non-SSE; compared with RFC 9106 / RFC 7914 models. "
          "Limits: out-of-range output length / opslimit / memlimit / algorithm return -1 with EINVAL or EFBIG. String API: strings produced with a scripted salt equal the model's standard encoding, are "
          "NUL-terminated and zero-filled within STRBYTES, verify with the same password, fail with another, are refused by the other variant's verifier; needs_rehash is 0 for equal (t, m=memlimit/1024), "
          "1 for each changed parameter. Foreign and mutated strings (rapidcheck, 16000, shrinking): model-built strings with p=1..4 lanes, other salt/hash lengths, wrong hash, then one of 15 mutations "
          "(substitute / insert / delete / truncate at any position with characters incl. high bytes, leading zeros, '+', padding, dropped field, version 16/20, swapped prefix, reordered parameters, trailing bits); "
          "plus a deterministic sweep truncating and substituting at every position of one argon2i, one argon2id and one $7$ string. Oracle: str_verify == model verdict, needs_rehash in {0,1,-1} exactly per the "
          "strict PHC parser. A cost guard (pre-parse of m/t/p, N/r/p) skips and counts strings that would cost more than 2 MiB / 6 passes. Non-trivial = memory >= 16 KiB or a string case; distinct = (parameters | string text, password)."),
    exhaustive_axes="every truncation length and 15 substitutions at every position of three reference strings; output lengths 16..130",
    assumptions=ASSUME_COMMON + ["scrypt opslimit/memlimit below the documented minima are not rejected by design (opslimit is clamped; pinned tests use small memlimits), so only outlen is range-checked there",
                                 "for $7$ strings only structural malformation (length, parameter characters) must give needs_rehash == -1; salt/hash characters are not validated by the format"],
)

PROPS["C09"] = dict(
    name="c09", thorough_rounds=1, sources=["props/c09.cpp"], engine="rapidcheck (operation histories) + enumerator", libs=["-lrapidcheck"],
    builds=[("asan", "native")],
    builds_thorough=[("asan", "native"), ("asan", "noasm"), ("asan", "portable"), ("plain", "native")],
    level="exploration",
    rule=("rapidcheck generates operation histories (1..24 ops, thorough 1..200; the whole list shrinks as one value) over {push(tag in MESSAGE/PUSH/REKEY/FINAL/arbitrary byte, mlen from a block-boundary mixture 0..700, "
          "ad NULL/0..80), explicit rekey, rekey with a desynchronisation probe, genuine pull, and deviating pulls: replayed earlier chunk, skip-ahead, truncation by 1..17 bytes, bit flip, altered/dropped ad, chunk of a "
          "second stream with the same key, chunk of a stream with another key (both positioned at the same counter), chunk shorter than ABYTES}, starting at chunk counter 1 or 2^32-k (k=1..4, written into the public "
          "state structs) so that the automatic rekey on wrap is reached. One pusher, one puller and two model states run in lock step. Invariants after every step: pushed chunk == documented ChaCha20-Poly1305 construction "
          "byte for byte (incl. the padding quirk), both library state structs == model state, genuine pull returns the pushed message/length/tag, every deviating pull returns -1 with mlen 0, tag 0xff, untouched "
          "message buffer and unchanged state; after the history all outstanding chunks must still be accepted in order. Deterministic part: every message length 0..700 with each tag and start counter, every bit of a "
          "57-byte chunk flipped, wrap reached by pushing from 2^32-k. Non-trivial = history with a rekey (explicit, tagged or by wrap) or a rejected pull followed by further pulls; distinct = (start counter, op list)."),
    exhaustive_axes="message lengths 0..700; all bit positions of one chunk; start counters 2^32-k for k=1..4",
    assumptions=ASSUME_COMMON,
)

_WRAP = ["-Wl," + ",".join("--wrap=" + f for f in ["malloc", "calloc", "realloc", "posix_memalign", "aligned_alloc", "free", "mmap", "munmap"])]
PROPS["C20"] = dict(
    name="c20", thorough_rounds=1, sources=["props/c20.cpp"], engine="fault-position enumerator", ldflags=_WRAP, max_workers=8,
    builds=[("asan", "native")],
    builds_thorough=[("asan", "native"), ("asan", "portable")],
    level="fault_enumeration",
    rule=("Link-time interposition of malloc/calloc/realloc/posix_memalign/aligned_alloc/free/mmap/munmap in an ASan build, armed only around the library call. For each of 18 API forms (crypto_pwhash argon2i/argon2id, "
          "crypto_pwhash_str, _argon2i_str, _str_alg, str_verify with right and wrong password for argon2id and argon2i strings, the variant-specific verifier, needs_rehash with equal and different parameters, scrypt raw / _ll / "
          "_str / _str_verify right and wrong, sodium_malloc, sodium_allocarray) and each of 3-5 parameter sets, a counting run records the n allocation requests and checks the fault-free verdict (repeated under the CPU masks all / -AVX512F / -AVX2 / SSE2-3 only / none, since the scrypt sse/nosse and the Argon2 backends have their own failure paths); then EVERY position i<n "
          "is made to fail alone and EVERY suffix 'all requests from i on' is made to fail (2n runs). Oracle whenever the armed fault was actually hit: the call does not report success (str_verify never returns 0, "
          "needs_rehash returns neither 0 nor 1, no usable hash string is left in the output, sodium_malloc returns NULL), the wrapper's live-block count returns to its value before the call (no leak), no free/munmap "
          "of a block that is not live (double free), no ASan report, no signal. Non-trivial = a run in which the armed failure was hit; distinct = (API, parameter set, position, single/suffix)."),
    exhaustive_axes="every allocation-request position (single failure and failing suffix) of every API form and parameter set",
    assumptions=["allocation requests made through the C library entry points above (what libsodium uses on Linux); mlock/mprotect failures are not allocation failures and are not injected",
                 "clang -O1 ASan+UBSan build of /repo's working tree"],
)

PROPS["C10"] = dict(
    name="c10", thorough_rounds=3, timeout_thorough=7200, sources=["props/c10.cpp"], engine="enumerator (deterministic corpus x configurations)",
    builds=[("asan", "native"), ("asan", "noasm"), ("asan", "noti"), ("asan", "portable"), ("asan", "nosimd"), ("plain", "mflags"), ("asan", "ndebug")],
    builds_thorough=[("asan", "native"), ("asan", "noasm"), ("asan", "noti"), ("asan", "portable"), ("asan", "nosimd"), ("plain", "native"), ("plain", "portable"), ("plain", "mflags"), ("plainclang", "mflags"), ("asan", "ndebug")],
    level="exploration",
    rule=("A shared deterministic corpus (pure function of VERIF_SEED) drives harness/apitable.hpp: 61 drivers covering ~290 public deterministic functions (all AEAD forms, MAC/hash one-shot and streaming, KDFs, stream "
          "ciphers and cores, secretbox/box incl. NaCl and afternm forms, seal_open, secretstream, X25519, kx, Ed25519 incl. ph and conversions, Edwards/Ristretto group, scalar and hash-to-group functions, comparison/"
          "arithmetic helpers, codecs, padding, Argon2/scrypt raw + verify/needs_rehash), with structured arguments where the backends' input screening could disagree (X25519 low-order / non-canonical / sparse points, stream counters that put the 2^32 carry at a vector-stride boundary, Poly1305 blocks solved for a carry-critical accumulator, Argon2 with more than one address block per segment, every prefix of a hash string) and argument lengths at block boundaries (0,1,15-17,31-33,63-65,127-129,255-257,511-513,1023-1025) and random lengths <= 4 KiB. "
          "(a) in-process, per case: outputs and return codes under every mask of the chain AVX-512F > AVX2 > AVX > SSE4.1 > SSSE3 > SSE3 > none, with AES-NI/PCLMUL off, and under random closed feature subsets must "
          "equal those of the reference configuration (mask none; for AES-256-GCM: mask all, compared only where it is available). (b) across builds {native, noasm, noti, portable, nosimd, ndebug = native with -DNDEBUG, gcc with Makefile.am's per-library machine flags} (thorough: + further gcc / clang builds): the "
          "driver compares the per-case digests of all builds. (c) for all 1024 subsets of the 10 feature bits: reported flags == detected & mask and crypto_aead_aes256gcm_is_available() == aesni & pclmul & avx of "
          "the masked flags (0 in the nosimd build, where every GCM entry point must return -1/ENOSYS); unmasked flags must all appear in /proc/cpuinfo. Non-trivial = (case, mask) whose effective feature set differs "
          "from the reference; distinct = (build, driver, seed, length policy, mask)."),
    exhaustive_axes="all 1024 feature-bit subsets for the flag/availability checks; the full mask chain for every corpus case",
    assumptions=ASSUME_COMMON + ["ARM NEON / crypto-extension code, big-endian hosts, Windows and ILP32 ABIs cannot be executed on this image"],
)

PROPS["C12"] = dict(
    name="c12", thorough_rounds=1, sources=["props/c12.cpp"], engine="enumerator + libFuzzer",
    builds=[("asan", "native"), ("asan", "noasm"), ("asan", "portable")],
    builds_thorough=[("asan", "native"), ("asan", "noasm"), ("asan", "portable"), ("asan", "noti"), ("asan", "nosimd")],
    fuzz=dict(name="fuzz_api", sources=["fuzz/fuzz_api.cpp"], procs=8, runs_quick=25000, time_quick=45, runs_thorough=100000000, time_thorough=900, max_len=64),
    level="exploration",
    rule=("harness/apitable.hpp drives ~290 public functions (61 drivers; the list of covered names is in the table and the count in the evidence notes). Every input buffer is an exact-size heap block whose surroundings are "
          "ASan-poisoned, placed at a generated misalignment 0..15; every output buffer has exactly the documented size; NULL is passed for zero-length optional pointers; decrypt/open/verify paths receive valid inputs "
          "that are then bit-flipped half of the time, codecs and unpad receive attacker-style text, password-hash verifiers receive cost-guarded mutated strings. Enumerated: the first variable length of every driver "
          "takes every value 0..1100 (public-key drivers every 7th, password hashing every 23rd), every third length also pins the second length; the sweep is repeated with every buffer ending right before / starting right after a PROT_NONE page (hardware guard: also catches accesses made by hand-written or inline assembly, which ASan does not instrument), and 2/5 of the random cases use these guard modes; 150000 fully random cases; CPU masks rotate through the whole chain incl. "
          "AES-NI off; builds native, noasm, portable. Size limits: 24 probes x 5 overshoots (message lengths beyond each *_MESSAGEBYTES_MAX, IETF counter overflow, hex/Base64 capacity and variant, sodium_pad overflow, "
          "randombytes_buf_deterministic 2^38) in forked children with tiny real buffers and a misuse handler that exits 42: the request must be refused (exit 42 or error return), never processed. libFuzzer stage "
          "(fuzz/fuzz_api.cpp, 8 processes, structured decode of bytes into driver/mask/alignment/lengths/seed, seed corpus for every driver). Oracle: no ASan report, no UBSan report except 'misaligned address' in "
          "x86-only SIMD files and 'applying zero offset to null pointer', no signal. Non-trivial = a call with a variable length > 0; distinct = (build, driver, lengths, mask, seed)."),
    exhaustive_axes="first variable length 0..1100 of every cheap driver",
    assumptions=ASSUME_COMMON + ["a buffer start that is not 8-byte aligned leaves up to 7 unpoisoned bytes before it (ASan shadow granularity); over-reads/over-writes past the end are exact at every alignment",
                                 "UBSan 'alignment' is disabled (type-punned 32-bit accesses in x86-only SIMD files); pointer-overflow reports are scanned in the log and only 'zero offset to null pointer' is ignored"],
)

PROPS["C19"] = dict(
    name="c19", thorough_rounds=3, sources=["props/c19.cpp"], engine="generated thread schedules + ThreadSanitizer", replay_policy=(5, 2),
    builds=[("tsan", "native")],
    builds_thorough=[("tsan", "native"), ("tsan", "portable")],
    level="exploration",
    rule=("Each trial is a fresh process of a ThreadSanitizer build (library and harness instrumented): N in 2..16 threads are released from a barrier, each with a generated pre-delay (none, k sched_yield calls, a spin of "
          "generated length) so that the arrival order varies, call sodium_init() and then run a generated workload of 1..6 API-table drivers (all families: AEAD, box, sign, hashes, KDF, streams, codecs, padding, "
          "small-cost password hashing) on thread-private buffers, followed by operations on shared library state: randombytes_buf/uniform/random on the active random source, key generators, crypto_*_keypair, "
          "sodium_malloc/allocarray/mprotect_*/free. Two families: default random source (280 trials) and randombytes_internal_implementation installed before init (120 trials); half of the trials run under a reduced CPU-feature mask and a third make every thread run the same API entry. A third sub-property ('focused') enumerates every API-table entry x 6 CPU masks (all, -AVX512F, -AVX2, SSE2/3 only, none, AES-NI off): all threads run that one entry at once, so function-local state that should be per call is touched by two unsynchronised threads. Every thread's first 32 random bytes are compared across threads and against the keystream of the all-zero ChaCha20 key (an unseeded per-thread generator races with nothing and is invisible to the race detector). A trial that has not finished after 180 s (normal < 3 s) is killed and reported as a hang. Oracle: no ThreadSanitizer report "
          "(happens-before: a race is flagged whenever the two accesses are unordered in the observed execution), exactly one thread gets 0 from sodium_init and all others 1, a later call returns 1, and every thread's "
          "output digest equals the digest of the same workload recomputed sequentially after the join. A failing trial is re-run 5 times and reported if it fails at least twice. "
          "Non-trivial = every trial has N >= 2; the histogram records trials in which >= 2 threads had reached sodium_init before the first one returned; distinct = (N, seed, family)."),
    exhaustive_axes="",
    assumptions=["ThreadSanitizer decides the executions it observed; hand-written assembly is not instrumented (it works on thread-private data only)", "clang 14 -O1 -fsanitize=thread build of /repo's working tree"],
)

PROPS["C11"] = dict(
    name="c11", thorough_rounds=12, sources=["props/c11.cpp"], engine="metamorphic trace-equality over generated secret pairs + valgrind definedness monitor", ldflags=["-no-pie"], cflags=["-fno-pie"],
    builds=[("cov", "native"), ("cov", "noasm"), ("cov", "portable")],
    builds_thorough=[("cov", "native"), ("cov", "noasm"), ("cov", "portable"), ("cov", "noti")],
    level="exploration",
    valgrind=dict(name="c11vg", sources=["props/c11vg.cpp"], seeds_quick=2, seeds_thorough=8, variants=["native", "noti"]),
    rule=("Metamorphic oracle over generated secret pairs: for fixed public inputs (operation, lengths, nonces, points, buffer addresses) the execution trace - every basic-block edge and every load/store address, "
          "recorded through -fsanitize-coverage=trace-pc-guard,trace-loads,trace-stores callbacks and folded into a rolling hash - must be identical for two secrets. 64 operations: crypto_verify_16/32/64, sodium_memcmp/"
          "compare/is_zero (both operands secret), X25519 and base, Ed25519 seed_keypair / sign / sign_detached / ph final_create / sk_to_curve25519, Edwards and Ristretto scalar multiplication (clamp, noclamp, base), "
          "scalar add/sub/mul/negate/complement/invert/reduce, ChaCha20 / IETF / XChaCha20 / Salsa20 / XSalsa20 / Salsa20-12 stream and xor, HChaCha20 / HSalsa20, Poly1305 one-shot and streaming, HMAC-SHA-256/512/512-256, "
          "SHA-256/512, keyed BLAKE2b one-shot and streaming, SipHash, BLAKE2b KDF, HKDF-SHA-256/512, ChaCha20-Poly1305 (3 variants) and secretbox (2 variants) encryption, AES-256-GCM and AEGIS-128L/256 encryption on the "
          "AES-NI backend, bin2hex, bin2base64 (4 variants), sodium_unpad (secret marker position) and sodium_pad (secret unpadded length). Public lengths across block boundaries "
          "{0-4,7-9,12,15-17,24,31-33,48,63-65,100,127-129,255-257,300,511-513,600}; structured secret pairs: random/random, all-00/all-ff, first byte, last byte, sampled single bits, random/zero, same key other message, other key "
          "same message; for comparisons equal vs first-byte / last-byte / random / single-bit difference; scalars {1, 2, L-1, 2^252, sparse, dense, random} (identity results excluded as the property allows); all "
          "marker positions. CPU masks {all, -avx2, -ssse3, none} x builds {native, noasm, portable} make each C backend visible. On divergence both traces are recorded in full and the first differing event is symbolised. "
          "Second monitor for assembly and gcc code generation: about 1300 operation executions per run on the gcc -O2 build under valgrind memcheck with the secret bytes marked undefined (every conditional jump or address "
          "depending on them is reported; alternating by seed between the native build and the build without 128-bit arithmetic (25.5-bit field, donna32 Poly1305), because a branch taken with probability 2^-26 never separates two traces; the public wrappers of Edwards/Ristretto scalar multiplication, which branch on the public identity-result check, and sodium_pad are excluded there, but the cores ge25519_scalarmult / ge25519_scalarmult_base / ristretto255 decode+encode of the secret-dependent result run through the internal entry points; also verify-only (m == NULL) AEAD decryption and MAC verification with secret keys, and secret pairs chosen by result class; only this monitor runs password hashing, because its internal allocations make addresses incomparable between two executions: Argon2i through crypto_pwhash at 8 KiB and 1040 KiB, and the data-independent first half of Argon2id - pass 0, slices 0 and 1 - on the ref, SSSE3 and AVX2 block-fill functions through the library's internal entry points). Non-trivial = pair with S1 != S2 (the histogram "
          "counts pairs with fewer than 20 trace events); distinct = (build, operation, public length, mask, pair class)."),
    assumptions=["decides the binaries produced by clang 14 -O2 (trace monitor) and gcc 12 -O2 (valgrind monitor) from /repo's working tree; hand-written assembly is only visible to the valgrind monitor",
                 "instruction-level timing (variable-latency instructions, micro-architectural effects) is outside the property"],
)


# ---- additions of round 6 (appended to the rule texts so that the evidence describes what actually runs)
ROUND6_ADD = {
 "C03": "long_requests: single STREAM / XOR requests of 16383..65600 bytes (thorough up to 262145) for every cipher and mask, and one of 4 MiB + 64..163 bytes for the reduced-round Salsa20 variants (thorough: every cipher): the block counter of one call walks across its byte carries (blocks 256, 512, 65536), the only way to reach them for the variants without a counter parameter.",
 "C04": "Hard keys: clamped Poly1305 r values solved offline (tools/poly1305_hard_keys.c: modular square roots mod 2^130-5 filtered for valid keys, ref/poly1305_hard_keys.inc) so that r^2 or r^4 - the powers the vectorised back end precomputes - has one 44-bit or 26-bit limb tiny or saturated with the next limb odd / even; each is run over 20 lengths 16..1000, one-shot and streamed, under every mask.",
 "C05": "Solved outputs also aim at sparse results (non-zero in a single 64-bit word, 32-bit word or byte of the 32 output bytes). bulk_ladders: 128000 (thorough 400000) uniformly random (scalar, point) pairs per worker and build go through the AVX assembly ladder and the portable ladder and are compared with each other (no big-integer model in the loop; one pair per 512 and every disagreeing pair is judged by the RFC 7748 model): defects that depend on internal limb values of one ladder (measured example: 1.25e-6 of random pairs) cannot be aimed at, only met by volume.",
 "C07": "Solved scalar multiplications also aim at results one byte away from the encoding of the identity (01 00..00 with one further non-zero byte, both signs; 64 byte values per position, thorough all 255; the library's validity test is only a pre-filter). scalar_solved_results: the result T of scalar mul / reduce / add / sub / invert and of sc25519_muladd (S = h*a + r of signing, called through the internal entry point) is chosen first - one limb in radix 2^21 (the representation used by sc25519_*), 2^32 or 2^64 all zeros, all ones, 1 or its top bit, next limb odd / even - and the operands are solved for (b = T/a, T + k*L over 64 bytes, c = T - a*b with a clamped b), 10 (thorough 48) repetitions per pattern.",
 "C08": "Foreign Argon2 strings also carry too little memory for their lanes (2p <= m < 8p, RFC 9106 requires m >= 8p): needs_rehash must return -1 and verification must fail.",
 "C09": "Half of the genuine empty-message chunks are pulled with m == NULL (an empty message needs no output buffer).",
 "C10": "huge_inputs: inputs whose bit length (2^29 + 77 bytes) no longer fits 32 bits - and in the thorough tier whose byte length does not (2^32 + 5 bytes, one buffer per build) - as associated data of ChaCha20-Poly1305-IETF, XChaCha20-Poly1305, AES-256-GCM (thorough: AEGIS-128L/256, whose software AES needs tens of seconds) and as message of BLAKE2b (one-shot and two updates, every compression backend), Poly1305, SHA-256, SHA-512, HMAC-SHA-256, HMAC-SHA-512-256, SipHash: equal under every mask, digests compared across builds. constants: the 282 exported accessor functions that return a documented constant (crypto_secretbox_keybytes() ...; list generated from the public headers by tools/gen_getters.py into harness/getters.inc) must return the value of the macro that documents them, in every build.",
 "C11": "Operations added: crypto_core_ed25519_scalar_is_canonical / crypto_core_ristretto255_scalar_is_canonical on a secret scalar (verdict public and equal within each pair: all pair members are canonical, two of them lie in [2^252, L)); sodium_pad / sodium_unpad with block sizes 24 and 100 (the modulo path of block sizes that are not a power of two; trace monitor only).",
 "C12": "The noasm build allocates its work areas with posix_memalign instead of mmap (HAVE_MMAP dropped), so that an overrun of a few bytes past the scrypt region or a guarded allocation is not hidden by page granularity. The hash-to-group drivers use a context longer than 255 bytes (the oversize-DST path) in one case of six.",
 "C13": "Offsets beyond +-80 (30 distances 81..700 around one and two 256/512-byte vector strides, both directions, 2..4 lengths each that keep the buffers overlapping, thorough 12). Opening calls that must fail (secretbox / box open, sign_open) with overlap offsets -80..80: same verdict as with disjoint buffers; where the disjoint call wipes its output (sign_open) the overlapped output must hold the same bytes, otherwise no 16-byte window of the plaintext may appear in the shared buffer.",
 "C15": "The length macro sodium_base64_ENCODED_LEN is also evaluated with compound expressions as arguments (h + (n - h), n + one - 1, n << 0, n ? n : 0, n | 0, base | mask, ...). Decoding also runs with ignore sets that have 8-bit members (bytes a0 ff 80, and newline + UTF-8 NBSP) on every text that contains a byte >= 0x80, and such bytes are inserted at every position of valid encodings.",
 "C16": "giant_buffers: sparse 4..16 GiB private mappings (untouched pages cost nothing): sodium_pad / sodium_unpad with unpadded lengths 2^32-1 .. 3*2^32+12345 x block sizes {3, 7, 10, 16, 100, 255, 1000, 4096, 4097, 65537} x capacity padded-1 / padded / padded+1, and sodium_unpad over one block of 2^32+16 bytes with more than 2^32 zero bytes after the marker (thorough: three such blocks).",
 "C17": "Overflow pairs with both factors above 2^32 ((2^32+i, 2^32+j), (2^sh+i, 2^(64-sh)+i)): the true product exceeds 2^64 while the wrapped product is moderate and not smaller than either factor.",
 "C19": "Second phase of every unfocused trial: the main thread prepares read-only objects (AES-256-GCM state from beforenm, two precomputed box keys, an Ed25519 key pair with a signed message, MAC / secretbox keys, a keyed BLAKE2b state that every thread copies), in the internal-RNG family calls randombytes_close(), then N new threads draw 32 random bytes and run encrypt_afternm / box_easy_afternm / sign_verify_detached / sign_detached / keyed generichash / secretbox / auth on private buffers with those shared const inputs; per-thread digests are recomputed sequentially, the draws compared across threads.",
}
for _k, _v in ROUND6_ADD.items():
    PROPS[_k]["rule"] = PROPS[_k]["rule"] + " " + _v

# ---- additions of round 7.  "Giant" sub-properties use harness/giant.hpp: private anonymous MAP_NORESERVE mappings of 4 GiB and more (reading
# untouched pages costs no memory); they run in the thorough tier, in the non-sanitizer builds, in the first round only, ask /proc/meminfo before
# writing such a buffer and count a case they had to skip.
ROUND7_ADD = {
 "C01": "Combined-mode messages of 1 MiB + 1 .. 3 MiB + 5 bytes (sub large): the block counter of one call crosses 2^14 and 2^15 blocks. giant_messages: 2^32 + 77 bytes encrypted in place (real memory) by the three ChaCha20-Poly1305 variants and both secretboxes - ciphertext windows around 2^32 and at the end against plaintext XOR model keystream at that offset, tag against Poly1305(model one-time key, MAC input of the construction) fed through the library's streaming Poly1305; AES-256-GCM - windows against the model's counter mode at that block; AEGIS-128L/256 and GCM - the ciphertext of the first 1024 bytes equals that of the prefix alone; all: in-place decryption succeeds and restores the sampled plaintext windows.",
 "C02": "box_public_forgery: a ciphertext sealed under a key anyone can compute (HSalsa20 / HChaCha20 of the all-zero shared point or of the public key itself, all-zero key) together with a low-order sender public key (7 encodings, both top-bit settings) must be refused by open_easy / open_detached / NaCl open for every recipient, both ciphers, four masks (5040 cases), and release nothing. giant_inputs: associated data or MAC'ed message of 2^32 + 77 bytes (sparse) for the six AEADs, secretstream pull, onetimeauth_verify and the three HMAC verifiers, and a real 4 GiB ciphertext for the six AEADs (verify-only decryption): the genuine input verifies, a bit flipped at byte 100, 2^32 - 1, 2^32 + 5, 2^32 + 64, the middle and the last byte is rejected.",
 "C03": "giant_requests: single requests of 2^32 + 71 bytes and more for every stream / XOR entry point, sampled windows against the model keystream (block counter beyond 2^26 blocks, byte offsets beyond 32 bits).",
 "C04": "giant_messages: messages of 2^32 + 13 bytes (sparse) through every hash / MAC, one-shot, as pieces of 2^24 + 1 bytes, as a single update call and as an update of 2^32 bytes followed by the rest: all equal, and different from the digest of the first (length mod 2^32) bytes; SipHash against a pointer-based model.",
 "C06": "giant_sign: a sparse message of 2^32 + 21 bytes signed by crypto_sign_detached and (2^32 + 22 bytes, pieces of 2^31 + 9 bytes) by the multi-part Ed25519ph API: the two SHA-512 passes of RFC 8032 recomputed with the library's streaming SHA-512, the arithmetic by the reference model (composition validated against the full model on a short message in the same run); verification accepts the signature and rejects the message with one bit flipped at byte 2^32 + 3.",
 "C07": "giant_h2c: the four hash-to-group functions x both hashes over a sparse message of 2^32 + 5..8 bytes: b_0 of expand_message_xmd recomputed with the library's streaming SHA-256 / SHA-512, everything after b_0 by the reference model (composition validated against the full model on a short message in the same run).",
 "C08": "giant_scrypt: crypto_pwhash_scryptsalsa208sha256_ll (N=2, r=1) with 2^32 - 31, 2^32 and 2^32 + 40 bytes of output (sampled blocks T_i = HMAC-SHA-256(P, B || INT(i)) from the reference model, partial last block, nothing written beyond), and with p = 2^25 and 2^25 + 1 (4 GiB between the two PBKDF2 passes) against a composition of the library's streaming HMAC-SHA-256 and the reference BlockMix; the composition is checked against the full reference model at p = 1, 3, 33 in every tier.",
 "C09": "giant_chunk: small chunk, a chunk with a sparse message of 2^32 + 50 bytes (tags MESSAGE and REKEY), small FINAL chunk: tag byte and ciphertext windows around 2^32 and at the end against the model keystream at that block, the MAC against Poly1305 over the construction's MAC input fed through the library's streaming Poly1305, the pushing state afterwards against the model's, the receiver pulls all three chunks and the sampled windows of the giant message come back.",
 "C10": "simulated_cpus (harness/simcpu.hpp; the non-sanitizer builds of variant mflags, which is compiled with the per-library machine flags of Makefile.am - gcc in the quick tier, gcc and clang in the thorough tier): in forked children CPUID is answered by the harness through CPUID faulting (9 AVX states: AVX-512F / AVX2 bits of leaf 7 cleared separately and together, the AVX bit of leaf 1 cleared with leaf 7 intact, OSXSAVE or XSAVE cleared; x 5 SSE levels x 4 AES-NI / PCLMUL states, RDRAND cleared in a third: 180 machines, all of them in the first thorough round of the gcc build, a fixed selection of 34 elsewhere), the library's detection and selection are re-run, and 18 calls (stream ciphers, BLAKE2b, Poly1305, X25519, AEGIS, AES-GCM, AEAD / secretbox compositions, Argon2i/id, scrypt, the internal random generator) are single-stepped (EFLAGS.TF): reported flags must be a subset of what the machine provides by the Intel SDM detection procedure, no executed instruction inside the executable may belong to an extension the machine lacks (VEX / EVEX, the 0F 38 / 0F 3A maps, SSE3, RDRAND; classifier pinned on 39 hand-assembled instructions), outputs must equal those with every feature masked off, the child must not die.",
 "C13": "Initial counters next to 2^32 and 2^64 for the _ic entry points; in-place and offset calls with 1 MiB + 1 .. 2 MiB + 5 bytes.",
 "C14": "giant_operands: sodium_compare / sodium_memcmp / sodium_is_zero over sparse operands of 2^32 and 2^32 + 16 bytes whose only differences lie at or above byte 2^32 - 1 (and, for compare, contradict the low bytes).",
 "C15": "giant_texts: 3 GiB + 1..3 bytes (2^31 + 1 for hex) encode to more than 2^32 characters: documented length (function and macro), terminator position, text windows around 2^32 and at the end against the model, decode(encode(x)) == x at sampled positions, decoded length and end pointer.",
 "C17": "`sodium_free` after a canary alteration must terminate the process whatever the disposition of SIGSEGV is (ignored, blocked, a handler that returns). giant_allocations (thorough, first round): sodium_malloc of 2^32 - 1, 2^32, 2^32 + 17, 2^32 + page + 1 bytes and sodium_allocarray with exact products above 2^32 (65537 x 65537, 3 x (2^31 - 5), (2^31 + 1) x 2): fill pattern over the whole region, last byte writable, first byte beyond faults, under-write detected by sodium_free, protection changes honoured at the far end.",
 "C18": "builtin_sources: 400 successive 32-bit draws of two children compared word by word (two equal words at the same position = failure); a /dev/urandom that fstat reports as a regular file must not be used (no byte delivered). giant_requests (forked children): randombytes_buf of 2^32 and 2^32 + 100 bytes - an installed source must be asked for exactly that range, sysrandom and the internal generator must leave no all-zero 32-byte window among 4101 sampled ones and write nothing beyond - and randombytes_buf_deterministic of those sizes against the ChaCha20-IETF model in windows around 2^32 and at the end.",
 "C19": "Every thread reads all CPU-feature getters and crypto_aead_aes256gcm_is_available() right after sodium_init returns; the values must equal the final ones (no lazily completed detection), and the getters race under ThreadSanitizer like any other call.",
 "C20": "Verification of foreign Argon2 strings longer than 128 characters (48-byte salt, 64..96-byte tag, two lanes); scrypt parameter sets up to 32 MiB of memory.",
}
for _k, _v in ROUND7_ADD.items():
    PROPS[_k]["rule"] = PROPS[_k]["rule"] + " " + _v
