#!/bin/bash
# usage: mkworktree.sh <dir>  -- a configured, buildable scratch git worktree of /repo (HEAD) outside /repo and /verif
set -e
d=$1
git -C /repo worktree add --detach -f "$d" HEAD >/dev/null 2>&1
# generated (git-ignored) autotools files are needed to configure; copy them, not the build products
cd /repo
git status --short --ignored | awk '$1=="!!"{print $2}' | grep -v '\.o$\|\.lo$\|\.la$\|\.libs\|\.deps\|/test/default/[a-z0-9_]*$\|\.log$\|\.trs$\|config\.status\|config\.log\|^libtool$\|Makefile$\|\.pc$\|version\.h$\|libsodium\.la\|stamp-h1\|config\.h$' > /tmp/mkwt.$$ || true
rsync -a --files-from=/tmp/mkwt.$$ -r /repo/ "$d"/ 2>/dev/null || true
rm -f /tmp/mkwt.$$
cd "$d"
./configure --quiet >/dev/null 2>&1
echo "ready: $d"
