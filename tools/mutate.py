#!/usr/bin/env python3
"""tools/mutate.py PLAN OUT [N] [SEED]
Mechanical mutation sampling (a complement to the independently seeded changes): applies N random single-token mutations to the
source files named in PLAN (lines "<file relative to /repo/src/libsodium> <ID> [<ID> ...]"), runs the quick tier of the named
checks on each mutant (through tools/seedrun.py, so /repo is always restored and the evidence put back) and appends one line per
mutant to OUT.  A mutant that no check notices is then looked at by hand: equivalent, outside the property, or a blind spot.
Operators: relational (< <= > >= == !=), && ||, + -, & |, << >>, integer literal +-1, deletion of a call / assignment statement."""
import os, random, re, subprocess, sys, tempfile, time
V = os.path.dirname(os.path.dirname(os.path.abspath(__file__)))
SRC = "/repo/src/libsodium"
plan, out = sys.argv[1], sys.argv[2]
N = int(sys.argv[3]) if len(sys.argv) > 3 else 40
rng = random.Random(int(sys.argv[4]) if len(sys.argv) > 4 else 1)
entries = []
for line in open(plan):
    p = line.split()
    if len(p) >= 2 and not line.startswith("#"):
        entries.append((p[0], p[1:]))

SWAPS = [(r"(?<![<>=!-])<=(?!=)", "<"), (r"(?<![<>=!-])>=(?!=)", ">"), (r"(?<![<=!>-])<(?![<=])", "<="), (r"(?<![>=!<-])>(?![>=])", ">="),
         (r"==", "!="), (r"!=", "=="), (r"&&", "||"), (r"\|\|", "&&"), (r"(?<=[\w\)\]] )\+(?= [\w\(])", "-"), (r"(?<=[\w\)\]] )-(?= [\w\(])", "+"),
         (r"(?<=[\w\)\]] )&(?= [\w\(~])", "|"), (r"(?<=[\w\)\]] )\|(?= [\w\(~])", "&"), (r"<<(?!=)", ">>"), (r">>(?!=)", "<<"), (r"(?<=[\w\)\]] )\^(?= [\w\(])", "|")]

def code_lines(txt):
    """indices of lines inside function bodies that are neither comments nor preprocessor lines"""
    res = []; depth = 0; incomment = False
    for i, l in enumerate(txt):
        s = l.strip()
        if incomment:
            if "*/" in s: incomment = False
            continue
        if s.startswith("/*") and "*/" not in s: incomment = True; continue
        if s.startswith("#") or s.startswith("//") or s.startswith("/*") or s.startswith("*") or not s:
            depth += l.count("{") - l.count("}"); continue
        if depth > 0 and "LCOV_EXCL" not in l: res.append(i)
        depth += l.count("{") - l.count("}")
    return res

def mutate_line(l):
    """returns (new line, description) or None"""
    kinds = ["swap", "swap", "swap", "literal", "delete"]
    rng.shuffle(kinds)
    for kind in kinds:
        if kind == "swap":
            cands = []
            for pat, rep in SWAPS:
                for m in re.finditer(pat, l):
                    # not inside a string / char literal / comment
                    pre = l[:m.start()]
                    if pre.count('"') % 2 or "//" in pre or "/*" in pre: continue
                    cands.append((m.start(), m.end(), rep, m.group(0)))
            if cands:
                a, b, rep, old = rng.choice(cands)
                return l[:a] + rep + l[b:], "'%s' -> '%s' at column %d" % (old, rep, a)
        if kind == "literal":
            cands = [m for m in re.finditer(r"(?<![\w.])(0x[0-9a-fA-F]+|\d+)(U|UL|ULL|u)?(?![\w.])", l) if not l[:m.start()].count('"') % 2 and "//" not in l[:m.start()]]
            if cands:
                m = rng.choice(cands); tok = m.group(1); v = int(tok, 16) if tok.startswith("0x") else int(tok)
                nv = v + rng.choice([1, -1]) if v > 0 else 1
                new = (hex(nv) if tok.startswith("0x") else str(nv)) + (m.group(2) or "")
                return l[:m.start()] + new + l[m.end():], "literal %s -> %s" % (m.group(0), new)
        if kind == "delete":
            s = l.strip()
            if s.endswith(";") and not s.startswith(("return", "break", "continue", "goto", "}", "{", "case", "default")) and re.match(r"^[\w\*\(\[\]\->\.\s]+(\(|=|\+=|-=|\^=|\|=|&=|\+\+|--)", s) and not re.match(r"^(const |unsigned |static |int |size_t |uint\d+_t |unsigned char |char |\w+_t )", s):
                return l[:len(l) - len(l.lstrip())] + "; /* deleted: " + s.replace("*/", "* /")[:60] + " */\n", "statement deleted: " + s[:70]
    return None

done = 0; tries = 0
while done < N and tries < 50 * N:
    tries += 1
    rel, ids = rng.choice(entries)
    path = os.path.join(SRC, rel)
    txt = open(path).read().splitlines(keepends=True)
    cl = code_lines(txt)
    if not cl: continue
    i = rng.choice(cl)
    r = mutate_line(txt[i])
    if not r: continue
    new, desc = r
    if new == txt[i]: continue
    mut = txt[:i] + [new] + txt[i + 1:]
    # make a patch
    with tempfile.TemporaryDirectory() as td:
        a = os.path.join(td, "a.c"); b = os.path.join(td, "b.c")
        open(a, "w").write("".join(txt)); open(b, "w").write("".join(mut))
        d = subprocess.run(["diff", "-u", "--label", "a/src/libsodium/" + rel, "--label", "b/src/libsodium/" + rel, a, b], capture_output=True, text=True).stdout
        pf = os.path.join(td, "m.diff"); open(pf, "w").write(d)
        t0 = time.time()
        rr = subprocess.run(["flock", "/tmp/seedrun.lock", sys.executable, os.path.join(V, "tools", "seedrun.py"), pf] + ids, capture_output=True, text=True, errors="replace", cwd=V)
        verdicts = []
        for line in rr.stdout.splitlines():
            p = line.split()
            if len(p) >= 3 and p[0] in ids: verdicts.append("%s:%s" % (p[0], "CAUGHT" if "CAUGHT" in line else ("INFRA" if "INFRA" in line else "missed")))
        status = "CAUGHT" if any(v.endswith("CAUGHT") for v in verdicts) else ("BUILD-FAIL" if verdicts and all(v.endswith("INFRA") for v in verdicts) else ("missed" if verdicts else "ERROR " + rr.stdout[-120:].replace("\n", " ")))
        with open(out, "a") as f:
            f.write("%s\t%s:%d\t%s\t%s\t%ds\t%s\n" % (status, rel, i + 1, desc, " ".join(verdicts), time.time() - t0, txt[i].strip()[:100]))
        if status == "missed":
            keep = os.path.join(os.path.dirname(out), "mut-%s-%d.diff" % (os.path.basename(rel).replace(".", "_"), i + 1))
            open(keep, "w").write(d)
    done += 1
print("done", done)
