#!/bin/bash
# usage: confirm_seed.sh <worktree> <changedir> : confirms (a) clean tree: demo passes, (b) with patch: builds, 82 tests pass, demo fails
wt=$1; ch=$2
cd $wt
git checkout -- . 2>/dev/null
build_demo() {
  if [ -f $ch/demo.build ]; then W=$wt CH=$ch OUT=/tmp/demo.$$ bash $ch/demo.build 2>/tmp/demo.$$.err || { echo "demo build failed (demo.build)"; head -5 /tmp/demo.$$.err; return 1; }
  elif [ -f $ch/demo.c ]; then gcc -O1 -I $wt/src/libsodium/include -I $wt/src/libsodium/include/sodium -I $ch $ch/demo.c $wt/src/libsodium/.libs/libsodium.a -lpthread -o /tmp/demo.$$ 2>/tmp/demo.$$.err || { echo "demo build failed"; head -5 /tmp/demo.$$.err; return 1; }
  elif [ -f $ch/demo.cpp ]; then g++ -O1 -I $wt/src/libsodium/include -I $wt/src/libsodium/include/sodium -I $ch $ch/demo.cpp $wt/src/libsodium/.libs/libsodium.a -lpthread -o /tmp/demo.$$ 2>/tmp/demo.$$.err || { echo "demo build failed"; return 1; }
  fi
}
run_demo() { if [ -f $ch/demo.sh ] && [ ! -f $ch/demo.build ]; then (cd $wt && bash $ch/demo.sh) >/tmp/demo.$$.out 2>&1; else /tmp/demo.$$ >/tmp/demo.$$.out 2>&1; fi; echo $?; }
make -j16 >/dev/null 2>&1
build_demo; a=$(run_demo)
git apply $ch/patch.diff || { echo "patch does not apply"; exit 1; }
make -j16 check > /tmp/confirm.$$.log 2>&1
res=$(grep -E "^# (PASS|FAIL|ERROR)" /tmp/confirm.$$.log | tr -d '\n' | tr -s ' ')
build_demo; b=$(run_demo); tailmsg=$(tail -2 /tmp/demo.$$.out | tr '\n' ' ' | cut -c1-200)
git checkout -- . ; make -j16 >/dev/null 2>&1
echo "clean_demo_rc=$a patched_suite='$res' patched_demo_rc=$b demo_tail='$tailmsg'"
rm -f /tmp/demo.$$ /tmp/demo.$$.* /tmp/confirm.$$.log
