#!/usr/bin/env python3
"""setup_cmd: pre-build every library flavour/variant and every harness (offline, from files on disk)."""
import os, sys, time
VERIF = os.path.dirname(os.path.dirname(os.path.abspath(__file__)))
sys.path.insert(0, os.path.join(VERIF, "tools"))
import vbuild, props as P
t0 = time.time()
for pid, c in sorted(P.PROPS.items()):
    seen = []
    for key in ("builds", "builds_thorough"):
        for fv in c.get(key, []) or []:
            if fv in seen or (key == "builds_thorough" and os.environ.get("VERIF_SETUP_QUICK_ONLY")):
                continue
            seen.append(fv)
            if "sources" in c:
                vbuild.build_harness(c["name"], c["sources"], fv[0], fv[1], extra_cflags=c.get("cflags", ()),
                                     extra_ldflags=c.get("ldflags", ()), libs=c.get("libs", ()))
    if "fuzz" in c:
        fz = c["fuzz"]
        vbuild.build_harness(fz["name"], fz["sources"], "fuzz", "native", extra_cflags=fz.get("cflags", ()), libs=fz.get("libs", ()))
    if "valgrind" in c:
        vbuild.build_harness(c["valgrind"]["name"], c["valgrind"]["sources"], "plain", "native")
    if "setup" in c:
        c["setup"]()
    print("[setup] %s ready (%.0fs)" % (pid, time.time() - t0), flush=True)
if os.path.exists(os.path.join(VERIF, "ref", "selftest.cpp")):
    vbuild.build_harness("selftest", ["ref/selftest.cpp"], "plainclang", "native", link_lib=False)
print("[setup] done in %.0fs" % (time.time() - t0))
