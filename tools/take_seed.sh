#!/bin/bash
# usage: take_seed.sh <worktree> <PROP> <src-change-number> <new-number> "<description>" "<needs>" <check IDs...>
# Confirms a sub-agent's change in its worktree, copies it to seeded/<PROP>-<new-number>/, then (serialised by a lock, because
# it patches /repo) runs the named checks against it with tools/seedrun.py --record.  Everything is appended to $TAKE_LOG.
wt=$1; prop=$2; srcn=$3; newn=$4; desc=$5; needs=$6; shift 6
log=${TAKE_LOG:-/tmp/take_seed.log}
here=$(cd "$(dirname "$0")" && pwd)
{
  echo "=== $prop-$newn (from $wt change$srcn)"
  c=$(cd /tmp && bash "$here/confirm_seed.sh" "$wt" "$wt/_out/change$srcn" 2>&1 | tail -1 | cut -c1-400)
  echo "confirm: $c"
  case "$c" in
    *"clean_demo_rc=0 "*"# PASS: 82# FAIL: 0# ERROR: 0"*) ;;
    *) echo "NOT CONFIRMED - not kept"; exit 0 ;;
  esac
  case "$c" in *"patched_demo_rc=0 "*) echo "NOT CONFIRMED (demo passes with the patch) - not kept"; exit 0 ;; esac
  python3 "$here/keep_seed.py" "$prop" "$newn" "$wt" "$desc" "$needs" "$srcn"
  (
    flock 9
    cd "$here/.." && python3 tools/seedrun.py "seeded/$prop-$newn/patch.diff" "$@" --record 2>&1 | cut -c1-420
  ) 9>/tmp/seedrun.lock
  echo "=== end $prop-$newn"
} >> "$log" 2>&1
