#!/usr/bin/env python3
"""Build libsodium (from /repo's *current working tree*) and the /verif harnesses.

No autotools: every .c under /repo/src/libsodium plus the two top-level .S
files are compiled directly with the -D set ./configure computed
(build/defs.native), minus the defines a variant removes.  Builds are
incremental and content-addressed: an object is reused only if its source and
every header listed in its compiler-generated dependency file have the same
SHA-256 as when it was built and the command line is unchanged; so any edit to
/repo is picked up, and an unchanged tree costs only the hashing (~50 ms).
"""
import hashlib, json, os, subprocess, sys, fcntl, shlex, time
from concurrent.futures import ThreadPoolExecutor

VERIF = os.path.dirname(os.path.dirname(os.path.abspath(__file__)))
REPO = os.environ.get("VERIF_REPO", "/repo")
SRC = os.path.join(REPO, "src", "libsodium")
BUILD = os.path.join(VERIF, ".build")
JOBS = int(os.environ.get("VERIF_JOBS", "16"))

TOP_ASM = ["crypto_stream/salsa20/xmm6/salsa20_xmm6-asm.S",
           "crypto_scalarmult/curve25519/sandy2x/sandy2x.S"]

VARIANT_DROP = {
    "native": [],
    # native defines plus the per-convenience-library machine flags of src/libsodium/Makefile.am (libaesni: -mavx -maes -mpclmul, libavx2:
    # -mavx2, ...), read from the current tree: the encodings (VEX or legacy) of the SIMD translation units are then those of the real build
    "mflags": [],
    # native defines plus -DNDEBUG (VARIANT_ADD): assert() compiles to nothing, as in any release build of an application that embeds the sources
    "ndebug": [],
    # noasm also allocates its work areas with posix_memalign instead of mmap (no HAVE_MMAP): page-granular mappings hide an overrun of a
    # few bytes from every sanitizer, a heap block does not (scrypt region, guarded allocations)
    "noasm": ["HAVE_AMD64_ASM", "HAVE_INLINE_ASM", "HAVE_MMAP"],
    "noti": ["HAVE_TI_MODE"],
    "portable": ["HAVE_AMD64_ASM", "HAVE_INLINE_ASM", "HAVE_AVX_ASM", "HAVE_TI_MODE",
                 "NATIVE_LITTLE_ENDIAN"],
    "nosimd": ["HAVE_AMD64_ASM", "HAVE_INLINE_ASM", "HAVE_AVX_ASM", "HAVE_TI_MODE",
               "NATIVE_LITTLE_ENDIAN", "HAVE_MMINTRIN_H", "HAVE_EMMINTRIN_H",
               "HAVE_PMMINTRIN_H", "HAVE_TMMINTRIN_H", "HAVE_SMMINTRIN_H",
               "HAVE_AVXINTRIN_H", "HAVE_AVX2INTRIN_H", "HAVE_AVX512FINTRIN_H",
               "HAVE_WMMINTRIN_H", "HAVE_RDRAND",
               "HAVE_EXPLICIT_BZERO", "HAVE_WEAK_SYMBOLS", "HAVE_MEMSET_S", "HAVE_EXPLICIT_MEMSET"],
}

VARIANT_ADD = {"ndebug": ["-DNDEBUG=1"]}

SAN = ["-fsanitize=address,undefined", "-fno-sanitize=alignment",
       "-fno-sanitize-recover=undefined", "-fsanitize-recover=pointer-overflow,nonnull-attribute",
       "-fno-omit-frame-pointer",
       # libsodium's configure adds -fno-strict-overflow (signed overflow wraps) where the compiler has it; with that flag clang drops the
       # signed-overflow and shift-base checks.  The sanitizer builds judge the code by the C standard, as a compiler without the flag would.
       "-fstrict-overflow"]

FLAVOURS = {
    # name: (cc, cxx, cflags for library objects, cflags for harness, link flags)
    "asan": ("clang", "clang++", ["-O1", "-g"] + SAN, ["-O1", "-g"] + SAN, SAN),
    "fuzz": ("clang", "clang++", ["-O1", "-g", "-fsanitize=fuzzer-no-link"] + SAN,
             ["-O1", "-g", "-fsanitize=fuzzer-no-link"] + SAN, ["-fsanitize=fuzzer"] + SAN),
    "cov": ("clang", "clang++",
            ["-O2", "-g", "-fsanitize-coverage=trace-pc-guard,trace-loads,trace-stores"],
            ["-O1", "-g"], []),
    "tsan": ("clang", "clang++", ["-O1", "-g", "-fsanitize=thread"],
             ["-O1", "-g", "-fsanitize=thread"], ["-fsanitize=thread"]),
    "plain": ("gcc", "g++", ["-O2", "-g"], ["-O1", "-g"], []),
    "plainclang": ("clang", "clang++", ["-O2", "-g"], ["-O1", "-g"], []),
    # measurement only (tools/coverage.py): source-based line coverage of the library while the checks run
    "prof": ("clang", "clang++", ["-O1", "-g", "-fprofile-instr-generate", "-fcoverage-mapping"], ["-O1", "-g"],
             ["-fprofile-instr-generate"]),
}

BASE_CFLAGS = ["-pthread", "-fno-strict-aliasing", "-fno-strict-overflow", "-fPIC",
               "-Wno-deprecated-declarations", "-Wno-unknown-pragmas", "-Wno-#warnings",
               "-Wno-cpp", "-Wno-unknown-warning-option",
               "-DSODIUM_VERIF=1", "-DDEV_MODE=1", "-DSODIUM_STATIC=1"]


def sha(path):
    h = hashlib.sha256()
    with open(path, "rb") as f:
        h.update(f.read())
    return h.hexdigest()


class HashCache:
    def __init__(self):
        self.c = {}

    def get(self, p):
        if p not in self.c:
            try:
                self.c[p] = sha(p)
            except OSError:
                self.c[p] = "missing"
        return self.c[p]


def defs_for(variant):
    drop = set(VARIANT_DROP[variant])
    out = []
    for line in open(os.path.join(VERIF, "build", "defs.native")):
        d = line.strip()
        if not d:
            continue
        name = d[2:].split("=")[0]
        if name in drop:
            continue
        out.append(d)
    return out + VARIANT_ADD.get(variant, [])


def parse_dep(path):
    try:
        txt = open(path).read()
    except OSError:
        return None
    txt = txt.replace("\\\n", " ")
    if ":" not in txt:
        return None
    deps = shlex.split(txt.split(":", 1)[1])
    return [d for d in deps if not d.startswith("/usr/") and not d.startswith("/opt/")]


def compile_one(cmd, src, obj, hc, force=False):
    """Compile src -> obj with cmd (list, without -c/-o/-MD) if stale. Returns (obj, rebuilt, err)."""
    meta = obj + ".meta"
    dep = obj + ".d"
    cmdstr = " ".join(cmd)
    if not force and os.path.exists(obj) and os.path.exists(meta):
        try:
            m = json.load(open(meta))
            if m.get("cmd") == cmdstr and all(hc.get(p) == h for p, h in m["deps"].items()):
                return obj, False, None
        except Exception:
            pass
    full = cmd + ["-MD", "-MF", dep, "-c", src, "-o", obj]
    r = subprocess.run(full, stdout=subprocess.PIPE, stderr=subprocess.STDOUT, text=True, errors="replace")
    if r.returncode != 0:
        return obj, True, "COMPILE FAILED: %s\n%s" % (" ".join(full), r.stdout[-4000:])
    deps = parse_dep(dep) or [src]
    if src not in deps:
        deps.append(src)
    m = {"cmd": cmdstr, "deps": {os.path.abspath(p): hc.get(os.path.abspath(p)) for p in deps}}
    json.dump(m, open(meta, "w"))
    return obj, True, None


class Lock:
    def __init__(self, path):
        self.path = path

    def __enter__(self):
        os.makedirs(os.path.dirname(self.path), exist_ok=True)
        self.f = open(self.path, "w")
        fcntl.flock(self.f, fcntl.LOCK_EX)
        return self

    def __exit__(self, *a):
        fcntl.flock(self.f, fcntl.LOCK_UN)
        self.f.close()


def lib_sources():
    out = []
    for root, dirs, files in os.walk(SRC):
        dirs.sort()
        for f in sorted(files):
            if f.endswith(".c"):
                out.append(os.path.join(root, f))
    for a in TOP_ASM:
        p = os.path.join(SRC, a)
        if os.path.exists(p):
            out.append(p)
    return out


def gen_version_h(incdir):
    os.makedirs(os.path.join(incdir, "sodium"), exist_ok=True)
    src = os.path.join(SRC, "include", "sodium", "version.h.in")
    txt = open(src).read()
    txt = (txt.replace("@VERSION@", "1.0.21")
              .replace("@SODIUM_LIBRARY_VERSION_MAJOR@", "28")
              .replace("@SODIUM_LIBRARY_VERSION_MINOR@", "0")
              .replace("@SODIUM_LIBRARY_MINIMAL_DEF@", ""))
    dst = os.path.join(incdir, "sodium", "version.h")
    if not os.path.exists(dst) or open(dst).read() != txt:
        open(dst, "w").write(txt)


MFLAG_DEFAULTS = {"CFLAGS_SSE2": "-msse2", "CFLAGS_SSE3": "-msse3", "CFLAGS_SSSE3": "-mssse3", "CFLAGS_SSE41": "-msse4.1", "CFLAGS_AVX": "-mavx",
                  "CFLAGS_AVX2": "-mavx2", "CFLAGS_AVX512F": "-mavx512f", "CFLAGS_AESNI": "-maes", "CFLAGS_PCLMUL": "-mpclmul", "CFLAGS_RDRAND": "-mrdrnd",
                  "CFLAGS_ARMCRYPTO": ""}


def makefile_flags():
    """{source path relative to src/libsodium: [machine flags]} from Makefile.am's lib*_la_CPPFLAGS / lib*_la_SOURCES (current tree)."""
    import re
    try:
        txt = open(os.path.join(SRC, "Makefile.am")).read().replace("\\\n", " ")
    except OSError:
        return {}
    flags, out = {}, {}
    for m in re.finditer(r"^(lib\w+)_la_CPPFLAGS\s*=(.*)$", txt, re.M):
        fl = []
        for tok in re.findall(r"@(CFLAGS_\w+)@", m.group(2)):
            fl += MFLAG_DEFAULTS.get(tok, "").split()
        flags[m.group(1)] = fl
    for m in re.finditer(r"^(lib\w+)_la_SOURCES\s*\+?=(.*)$", txt, re.M):
        fl = flags.get(m.group(1))
        if not fl:
            continue
        for s in m.group(2).split():
            if s.endswith(".c"):
                out[s] = sorted(set(out.get(s, []) + fl), key=lambda x: list(MFLAG_DEFAULTS.values()).index(x) if x in MFLAG_DEFAULTS.values() else 99)
    return out


def include_flags(bdir):
    inc = os.path.join(SRC, "include")
    return ["-I" + inc, "-I" + os.path.join(inc, "sodium"),
            "-I" + os.path.join(bdir, "include"), "-I" + os.path.join(bdir, "include", "sodium")]


def build_lib(flavour, variant, quiet=True):
    """Returns (archive path, build dir, n_rebuilt)."""
    cc, cxx, cflags, hflags, lflags = FLAVOURS[flavour]
    bdir = os.path.join(BUILD, "lib-%s-%s" % (flavour, variant))
    os.makedirs(os.path.join(bdir, "obj"), exist_ok=True)
    with Lock(os.path.join(bdir, "lock")):
        gen_version_h(os.path.join(bdir, "include"))
        hc = HashCache()
        cmd = [cc] + BASE_CFLAGS + cflags + defs_for(variant) + include_flags(bdir)
        srcs = lib_sources()
        mfl = makefile_flags() if variant == "mflags" else {}
        jobs = []
        percmd = {}
        for s in srcs:
            rel = os.path.relpath(s, SRC)
            obj = os.path.join(bdir, "obj", rel.replace("/", "__") + ".o")
            jobs.append((s, obj))
            percmd[s] = cmd + mfl.get(rel, [])
        t0 = time.time()
        with ThreadPoolExecutor(JOBS) as ex:
            res = list(ex.map(lambda so: compile_one(percmd[so[0]], so[0], so[1], hc), jobs))
        errs = [e for _, _, e in res if e]
        if errs:
            raise RuntimeError("libsodium build failed (%s/%s):\n%s" % (flavour, variant, errs[0]))
        rebuilt = sum(1 for _, r, _ in res if r)
        lib = os.path.join(bdir, "libsodium.a")
        wanted = set(o for _, o in jobs)
        # remove stale objects of deleted sources
        for f in os.listdir(os.path.join(bdir, "obj")):
            p = os.path.join(bdir, "obj", f)
            if f.endswith(".o") and p not in wanted:
                for q in (p, p + ".meta", p + ".d"):
                    try:
                        os.unlink(q)
                    except OSError:
                        pass
                rebuilt += 1
        if rebuilt or not os.path.exists(lib):
            tmp = lib + ".tmp"
            if os.path.exists(tmp):
                os.unlink(tmp)
            subprocess.check_call(["ar", "rcs", tmp] + sorted(wanted))
            os.replace(tmp, lib)
        if not quiet:
            print("[vbuild] lib %s/%s: %d/%d objects rebuilt in %.1fs" %
                  (flavour, variant, rebuilt, len(jobs), time.time() - t0), file=sys.stderr)
        return lib, bdir, rebuilt


def tree_hash():
    h = hashlib.sha256()
    for root, dirs, files in os.walk(SRC):
        dirs.sort()
        for f in sorted(files):
            if f.endswith((".c", ".h", ".S", ".in")):
                p = os.path.join(root, f)
                h.update(os.path.relpath(p, SRC).encode())
                h.update(open(p, "rb").read())
    return h.hexdigest()[:16]


def build_harness(name, sources, flavour, variant, extra_cflags=(), extra_ldflags=(), libs=(),
                  quiet=True, link_lib=True, cxxstd="-std=gnu++17"):
    """Compile harness sources (relative to /verif) and link against the flavour/variant lib.
    Returns path of executable."""
    cc, cxx, cflags, hflags, lflags = FLAVOURS[flavour]
    lib, lbdir, _ = build_lib(flavour, variant, quiet=quiet)
    hdir = os.path.join(BUILD, "h-%s-%s-%s" % (name, flavour, variant))
    os.makedirs(hdir, exist_ok=True)
    with Lock(os.path.join(hdir, "lock")):
        hc = HashCache()
        objs = []
        jobs = []
        for s in sources:
            sp = os.path.join(VERIF, s)
            obj = os.path.join(hdir, s.replace("/", "__") + ".o")
            if s.endswith(".c"):
                cmd = [cc] + hflags
            else:
                cmd = [cxx, cxxstd] + hflags
            cmd = cmd + ["-pthread", "-DSODIUM_STATIC=1", "-DSODIUM_VERIF=1",
                         "-DVERIF_VARIANT=\"%s\"" % variant, "-DVERIF_FLAVOUR=\"%s\"" % flavour,
                         # lets a harness that includes a private header pick the same limb representation as the library it links
                         "-DVERIF_LIB_HAVE_TI_MODE=%d" % (0 if "HAVE_TI_MODE" in VARIANT_DROP[variant] else 1),
                         "-I" + VERIF, "-I" + os.path.join(VERIF, "harness"),
                         "-I" + os.path.join(VERIF, "ref")] + include_flags(lbdir) + list(extra_cflags)
            jobs.append((cmd, sp, obj))
            objs.append(obj)
        with ThreadPoolExecutor(JOBS) as ex:
            res = list(ex.map(lambda j: compile_one(j[0], j[1], j[2], hc), jobs))
        errs = [e for _, _, e in res if e]
        if errs:
            raise RuntimeError("harness build failed (%s):\n%s" % (name, errs[0]))
        exe = os.path.join(hdir, name)
        stamp = exe + ".stamp"
        key = hashlib.sha256((sha(lib) + "".join(sha(o) for o in objs) +
                              " ".join(lflags) + " ".join(extra_ldflags) + " ".join(libs)).encode()).hexdigest()
        if not os.path.exists(exe) or not os.path.exists(stamp) or open(stamp).read() != key:
            cmd = [cxx] + lflags + ["-pthread"] + objs + ([lib] if link_lib else []) + list(extra_ldflags) + list(libs) + ["-o", exe]
            r = subprocess.run(cmd, stdout=subprocess.PIPE, stderr=subprocess.STDOUT, text=True, errors="replace")
            if r.returncode != 0:
                raise RuntimeError("link failed (%s): %s\n%s" % (name, " ".join(cmd), r.stdout[-4000:]))
            open(stamp, "w").write(key)
        return exe


if __name__ == "__main__":
    import argparse
    ap = argparse.ArgumentParser()
    ap.add_argument("flavour")
    ap.add_argument("variant")
    a = ap.parse_args()
    lib, bdir, n = build_lib(a.flavour, a.variant, quiet=False)
    print(lib)
