#!/usr/bin/env python3
"""Regenerates seeded/INDEX.md from seeded/*/meta.json"""
import json, glob, os
rows = []
for p in sorted(glob.glob("/verif/seeded/*/meta.json")):
    m = json.load(open(p))
    rows.append("| %s | %s | %s | %s |" % (m["id"], m["description"].replace("|", "/"), m["needs_to_manifest"].replace("|", "/"), "; ".join("%s: %s" % kv for kv in m.get("checks_run", {}).items()).replace("|", "/")))
open("/verif/seeded/INDEX.md", "w").write("# Independently seeded breaking changes\n\nEach was produced by a fresh sub-agent that saw only the property text and a scratch worktree, and was confirmed in a scratch worktree (unchanged tree: demonstration passes; with the patch: builds, 82/82 tests pass, demonstration fails).\n\n| id | change | needs to manifest | checks (quick tier) |\n|---|---|---|---|\n" + "\n".join(rows) + "\n")
print(len(rows), "entries")
