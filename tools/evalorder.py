import re,sys
src=open('/verif/harness/apitable.hpp').read()
# strip comments
src_nc=re.sub(r'//[^\n]*','',src)
pat=re.compile(r'c\.(in|out|scratch|inb|in_or_null|state<[^>]*>|len|chance|tamper)\(|c\.r\.(below|next|coin|bytes|fill|range)\(|x25519_point\(c\)')
def split_top(s, sep):
    parts=[];depth=0;cur=''
    for ch in s:
        if ch in '([{': depth+=1
        elif ch in ')]}': depth-=1
        if ch==sep and depth==0: parts.append(cur);cur=''
        else: cur+=ch
    parts.append(cur);return parts
n=0
lineno_of={}
pos=0
# statements: split on ';' at any depth of braces but paren depth 0
stmts=[];depth=0;cur='';start=0
for i,ch in enumerate(src_nc):
    if ch=='(' : depth+=1
    elif ch==')': depth-=1
    if (ch==';' or ch=='{' or ch=='}') and depth==0:
        stmts.append((start,cur)); cur=''; start=i+1
    else: cur+=ch
for start,st in stmts:
    if len(pat.findall(st))<2: continue
    # macro continuation cleanup
    s2=st.replace('\\\n',' ')
    for piece in split_top(s2, ','):
        k=len(pat.findall(piece))
        if k>=2:
            # ignore ternaries that only pick one branch? still flag
            line=src_nc.count('\n',0,start)+1
            print("L%d [%d]: %s"%(line,k,' '.join(piece.split())[:230]))
            n+=1
print(n,"flagged")
