#!/usr/bin/env python3
"""keep_seed.py <PROP> <n> <worktree> "<one-line>" "<needs>" [<src-change-number>] : copies a confirmed seeded change into /verif/seeded/<PROP>-<n>/"""
import sys, os, shutil, json, glob
prop, n, wt, desc, needs = sys.argv[1:6]
srcn = sys.argv[6] if len(sys.argv) > 6 else n
src = os.path.join(wt, "_out", "change" + srcn)
dst = os.path.join("/verif/seeded", "%s-%s" % (prop, n))
os.makedirs(dst, exist_ok=True)
for f in glob.glob(os.path.join(src, "*")):
    if os.path.isfile(f) and os.path.getsize(f) < 400000:
        shutil.copy(f, dst)
meta = {"id": "%s-%s" % (prop, n), "breaks_property": prop, "description": desc, "needs_to_manifest": needs,
        "confirmed": "tools/confirm_seed.sh in a scratch worktree: unchanged tree demo rc=0; with patch: builds, 82/82 tests pass, demo rc=1",
        "checks_run": {}}
json.dump(meta, open(os.path.join(dst, "meta.json"), "w"), indent=1)
print(dst)
