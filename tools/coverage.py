#!/usr/bin/env python3
"""Measurement, not a check: which lines of /repo/src/libsodium do the checks execute?

Builds the library with clang source-based coverage (flavour "prof", every variant a check uses), runs the
quick (or thorough) tier of the given properties with VERIF_FLAVOUR_OVERRIDE=prof - same harness binaries,
same generators, same seeds, no sanitizer - merges the profiles and writes, per source file, the lines that
were compiled in at least one variant and executed in none (.build/coverage/uncovered.txt), plus a per-file
summary (coverage/SUMMARY.md when --write is given).  A line no check executes is a line where no change can
be noticed: the list is used to aim generators, never to claim anything.

usage: tools/coverage.py [--tier quick] [--write] [IDs...]
"""
import glob, json, os, re, shutil, subprocess, sys
VERIF = os.path.dirname(os.path.dirname(os.path.abspath(__file__)))
sys.path.insert(0, os.path.join(VERIF, "tools"))
import props as P
import vbuild

def main():
    args = sys.argv[1:]
    tier = "quick"
    write = False
    if "--tier" in args:
        i = args.index("--tier"); tier = args[i + 1]; del args[i:i + 2]
    if "--write" in args:
        args.remove("--write"); write = True
    ids = [a.upper() for a in args] or sorted(P.PROPS)
    cdir = os.path.join(vbuild.BUILD, "coverage")
    if not os.environ.get("COV_KEEP"):
        shutil.rmtree(cdir, ignore_errors=True)
    os.makedirs(os.path.join(cdir, "raw"), exist_ok=True)
    env = dict(os.environ)
    env["VERIF_FLAVOUR_OVERRIDE"] = "prof"
    env["LLVM_PROFILE_FILE"] = os.path.join(cdir, "raw", "p-%m.profraw")
    for pid in ids:
        r = subprocess.run([os.path.join(VERIF, "check"), pid, "--tier", tier], env=env, stdout=subprocess.PIPE, stderr=subprocess.STDOUT, text=True, errors="replace")
        last = [l for l in r.stdout.splitlines() if l.startswith("[" + pid)]
        print(pid, "rc=%d" % r.returncode, last[-1] if last else r.stdout[-300:], flush=True)
    raws = glob.glob(os.path.join(cdir, "raw", "*.profraw"))
    prof = os.path.join(cdir, "all.profdata")
    subprocess.check_call(["llvm-profdata-14", "merge", "-sparse", "-o", prof] + raws)
    exes = []
    for h in sorted(glob.glob(os.path.join(vbuild.BUILD, "h-*-prof-*"))):
        for f in os.listdir(h):
            p = os.path.join(h, f)
            if os.access(p, os.X_OK) and os.path.isfile(p) and "." not in f:
                exes.append(p)
    # union over binaries: line -> max count
    lines = {}
    for e in exes:
        r = subprocess.run(["llvm-cov-14", "export", "-format=lcov", "-instr-profile=" + prof, e], stdout=subprocess.PIPE, stderr=subprocess.DEVNULL, text=True, errors="replace")
        cur = None
        for l in r.stdout.splitlines():
            if l.startswith("SF:"):
                cur = l[3:]
            elif l.startswith("DA:") and cur and "/src/libsodium/" in cur:
                n, c = l[3:].split(",")[:2]
                d = lines.setdefault(cur, {})
                d[int(n)] = max(d.get(int(n), 0), int(c))
    tot = cov = 0
    rows = []
    out = open(os.path.join(cdir, "uncovered.txt"), "w")
    for f in sorted(lines):
        d = lines[f]
        t = len(d); c = sum(1 for v in d.values() if v > 0)
        tot += t; cov += c
        rel = f.split("/src/libsodium/")[1]
        rows.append((rel, t, c))
        unc = sorted(n for n, v in d.items() if v == 0)
        if unc:
            src = open(f, errors="replace").read().splitlines()
            # ranges
            rs = []
            s = p = None
            for n in unc:
                if s is None:
                    s = p = n
                elif n == p + 1:
                    p = n
                else:
                    rs.append((s, p)); s = p = n
            rs.append((s, p))
            out.write("== %s  (%d of %d lines not executed)\n" % (rel, len(unc), t))
            for a, b in rs:
                out.write("  %d-%d: %s\n" % (a, b, src[a - 1].strip()[:110] if a - 1 < len(src) else ""))
    out.close()
    print("lines compiled: %d, executed by at least one check: %d (%.1f%%)" % (tot, cov, 100.0 * cov / max(1, tot)))
    if write:
        os.makedirs(os.path.join(VERIF, "coverage"), exist_ok=True)
        with open(os.path.join(VERIF, "coverage", "SUMMARY.md"), "w") as f:
            f.write("# Line coverage of /repo/src/libsodium by the %s tiers of %s\n\n" % (tier, ", ".join(ids)))
            f.write("Measurement only (tools/coverage.py): clang source-based coverage, union over all build variants a check uses.\n")
            f.write("Forked children that end in a signal or `_exit` (C17 probes, C19 trials) and the fuzz stage are not counted.\n\n")
            f.write("total: %d lines compiled, %d executed (%.1f%%)\n\n| file | lines | executed | %% |\n|---|---|---|---|\n" % (tot, cov, 100.0 * cov / max(1, tot)))
            for rel, t, c in rows:
                f.write("| %s | %d | %d | %.0f |\n" % (rel, t, c, 100.0 * c / max(1, t)))
        shutil.copy(os.path.join(cdir, "uncovered.txt"), os.path.join(VERIF, "coverage", "uncovered.txt"))

main()
