"""Manifest metadata."""
import props as P

HOOK_COMMITS = ["f1c8254"]
NOT_YET = {}
NOTES = ("All checks are driven by ./check <ID> --tier quick|thorough; they rebuild libsodium incrementally from /repo's working tree "
         "(tools/vbuild.py) and write evidence/<ID>.json. Known / fixed findings: known_findings.json. Design: DESIGN.md.")
ENGINES = [
    {"name": "vh enumerators", "path": "harness/vh.hpp", "serves_properties": sorted(P.PROPS.keys()),
     "kind_free_text": "deterministic enumerators + splitmix64 (VERIF_SEED) structured generators with crash journaling and text replay"},
]
