#!/usr/bin/env python3
"""tools/seed_regress.py [ID-prefix ...]
Regression over the kept seeded changes: for every seeded/<id>/ re-runs (quick tier) each check that meta.json records as
CAUGHT and reports the ones that no longer catch it.  Applies / reverts each patch through tools/seedrun.py (evidence is put back).
Writes seeded/REGRESSION.txt."""
import json, glob, os, subprocess, sys, time
V = os.path.join(os.path.dirname(os.path.abspath(__file__)), "..")
want = sys.argv[1:]
rows = []; bad = []
t0 = time.time()
for mp in sorted(glob.glob(os.path.join(V, "seeded", "*", "meta.json"))):
    m = json.load(open(mp)); sid = m["id"]
    if want and not any(sid.startswith(w) for w in want): continue
    checks = [k for k, v in m.get("checks_run", {}).items() if v.startswith("CAUGHT")]
    if not checks: continue
    r = subprocess.run([sys.executable, os.path.join(V, "tools", "seedrun.py"), os.path.join(os.path.dirname(mp), "patch.diff")] + checks,
                       capture_output=True, text=True, errors="replace")
    for line in r.stdout.splitlines():
        parts = line.split()
        if len(parts) >= 3 and parts[0] in checks:
            ok = "CAUGHT" in line
            rows.append("%s %s %s" % (sid, parts[0], "CAUGHT" if ok else line[:160]))
            if not ok: bad.append((sid, parts[0], line[:200]))
    print(rows[-1] if rows else sid, flush=True)
out = ["# regression of the seeded changes against the current checks (quick tier), %d s%s" % (time.time() - t0, (" -- subset: seeds starting with " + " ".join(want)) if want else "")] + rows + ["", "NOT CAUGHT ANY MORE: %d" % len(bad)] + ["%s %s %s" % b for b in bad]
open(os.path.join(V, "seeded", "REGRESSION.txt"), "w").write("\n".join(out) + "\n")
print("\n".join(out[-(len(bad) + 2):]))
