#!/usr/bin/env python3
"""Regenerates /verif/MANIFEST.json from tools/props.py (single source of truth)."""
import json, os, sys
VERIF = os.path.dirname(os.path.dirname(os.path.abspath(__file__)))
sys.path.insert(0, os.path.join(VERIF, "tools"))
import props as P
import meta as M

ALL = ["C%02d" % i for i in range(1, 21)]
checks = []
for pid in ALL:
    if pid not in P.PROPS:
        continue
    c = P.PROPS[pid]
    checks.append({
        "property_id": pid,
        "quick_cmd": "./check %s --tier quick" % pid,
        "thorough_cmd": "./check %s --tier thorough" % pid,
        "evidence_file": "/verif/evidence/%s.json" % pid,
        "replay_cmd_template": "./check %s --replay {path}" % pid,
        "engine": c.get("engine", "enumerator"),
        "level_claimed": {"category": c["level"], "text": c.get("level_text", ""), "design_ref": "DESIGN.md section 4, " + pid},
        "level_note": c.get("level_note", "; ".join(c.get("assumptions", []))),
        "technique": c.get("technique", "property-based testing: generated/enumerated inputs against an independent reference model"),
    })
na = [{"property_id": pid, "reason": M.NOT_YET.get(pid, "check not implemented yet in this round")} for pid in ALL if pid not in P.PROPS]
m = {
    "version": 1,
    "setup_cmd": "python3 tools/setup.py",
    "hooks": {
        "guard": "SODIUM_VERIF",
        "enable": "tools/vbuild.py compiles /repo/src/libsodium/**/*.c directly with -DSODIUM_VERIF=1 (CPU feature mask: env SODIUM_VERIF_CPU_MASK and sodium_verif_set_cpu_mask() in sodium/runtime.c)",
        "baseline_off_cmd": "make -C /repo -j16 check",
        "source_commits": M.HOOK_COMMITS,
        "add_only": True,
    },
    "engines": M.ENGINES,
    "checks": checks,
    "notes": M.NOTES,
    "not_applicable": na,
}
json.dump(m, open(os.path.join(VERIF, "MANIFEST.json"), "w"), indent=1)
print("MANIFEST.json: %d checks, %d not_applicable" % (len(checks), len(na)))
