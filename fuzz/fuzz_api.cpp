// libFuzzer target: bytes -> (API table entry, CPU mask, misalignment, length list, content seed) -> one in-contract call sequence
// on exact-size poisoned buffers.  Oracles: ASan/UBSan (C12) and, with VERIF_FUZZ_DIFF=1, equality of the digest with the
// reference configuration (mask none) -- the C10 differential.  Library state (CPU mask) is reset at the top of every iteration.
#include "vh.hpp"
#include "apitable.hpp"
#include <unistd.h>

static unsigned long g_detected = 0;
static bool g_diff = false;
static std::vector<unsigned long> g_masks;

static unsigned long cur_features() {
    unsigned long f = 0;
    if (sodium_runtime_has_sse2()) f |= 1; if (sodium_runtime_has_sse3()) f |= 2; if (sodium_runtime_has_ssse3()) f |= 4; if (sodium_runtime_has_sse41()) f |= 8; if (sodium_runtime_has_avx()) f |= 16;
    if (sodium_runtime_has_avx2()) f |= 32; if (sodium_runtime_has_avx512f()) f |= 64; if (sodium_runtime_has_pclmul()) f |= 128; if (sodium_runtime_has_aesni()) f |= 256; if (sodium_runtime_has_rdrand()) f |= 512;
    return f;
}
extern "C" int LLVMFuzzerInitialize(int *, char ***) {
    if (sodium_init() < 0) abort();
    sodium_verif_set_cpu_mask(1023); g_detected = cur_features();
    g_diff = getenv("VERIF_FUZZ_DIFF") != nullptr;
    unsigned long chain[] = { 1023, 1023 & ~64UL, 1023 & ~96UL, 1023 & ~112UL, 1023 & ~120UL, 1023 & ~124UL, 0, 1023 & ~384UL };
    for (unsigned long m : chain) g_masks.push_back(m);
    return 0;
}
static uint64_t eval(size_t entry, unsigned long mask, uint64_t seed, const std::vector<size_t> &lens, bool misalign) {
    sodium_verif_set_cpu_mask(mask);
    api::Ctx c(seed); c.fixed_lens = lens; c.maxlen = 600; c.misalign = misalign;
    api::table()[entry].fn(c);
    return c.finish();
}
extern "C" int LLVMFuzzerTestOneInput(const uint8_t *data, size_t size) {
    if (size < 4) return 0;
    const auto &T = api::table();
    size_t entry = data[0] % T.size();
    unsigned long mask = g_masks[data[1] % g_masks.size()];
    if (data[1] & 0x80) { mask = ((unsigned long) data[1] << 3 | data[2]) & 1023; if (!(mask & 16)) mask &= ~96UL; if (!(mask & 32)) mask &= ~64UL; }
    bool misalign = data[2] & 1;
    if (T[entry].cost == 2 && (data[2] & 0x0e)) return 0;         // password hashing: keep it rare
    std::vector<size_t> lens; size_t i = 3;
    for (; i + 1 < size && lens.size() < 8; i += 2) lens.push_back((((size_t) data[i] << 8) | data[i + 1]) % 1200);
    uint64_t seed = vh::hash_bytes(data + 3, size - 3);
    uint64_t d = eval(entry, mask, seed, lens, misalign);
    if (g_diff) {
        bool gcm = std::string(T[entry].name) == "aead_aes256gcm";
        unsigned long ref = gcm ? 1023 : 0;
        unsigned long eff = mask & g_detected;
        if (!gcm || ((eff & 256) && (eff & 128) && (eff & 16))) {
            uint64_t r = eval(entry, ref, seed, lens, misalign);
            if (r != d) { fprintf(stderr, "FUZZ-DIFF entry=%s mask=%lx seed=%llu: digest differs from the reference configuration\n", T[entry].name, mask, (unsigned long long) seed); __builtin_trap(); }
        }
    }
    sodium_verif_set_cpu_mask(1023);
    return 0;
}
